"""Semantics + implicit preconditions of the NumPy primitives used by skchange (DESIGN 3.3 / 3.4).

Every primitive here is an *assumed* contract on NumPy (listed in evidence); `selftest` cross-checks them natively.
Index obligations are stricter than Python: 0 <= i < len (no wrap-around), slices 0 <= s <= e <= len.
"""
from __future__ import annotations

from fractions import Fraction

import z3

from .state import forall, fresh_int
from .values import (nil, NONE, Slc, Arr, EngineError, Lst, Opaque, Unsupported, cast, fresh_name, fresh_scalar, is_boolv,
                     is_concrete, is_intv, is_numv, is_realv, is_z3, kind_of, mk_and, mk_implies, mk_ite, mk_not,
                     mk_or, num_abs, num_add, num_cmp, num_max, num_min, num_mul, num_neg, num_pow, num_sub,
                     num_truediv, num_floordiv, num_mod, sort_of, sym_array, to_int_from_bool, to_real, to_z3)

# uninterpreted transcendental functions (axioms are applied as explicit ground instances, DESIGN 5.3)
LOG = z3.Function("LOG", z3.RealSort(), z3.RealSort())
SQRT = z3.Function("SQRT", z3.RealSort(), z3.RealSort())
PI = z3.Real("PI")
PI_AXIOM = z3.And(PI > z3.RealVal("3.14159"), PI < z3.RealVal("3.1416"))


def mk_ite_bool(c, a, b):
    if c is True:
        return a
    if c is False:
        return b
    from .values import zbool
    return z3.If(c, zbool(a), zbool(b))


def join_kind(k1, k2):
    if "real" in (k1, k2):
        return "real"
    if "int" in (k1, k2):
        return "int"
    return "bool"


class NumpyModel:
    # engine services expected: self.oblige(st, goal, kind, label, node), self.note_assumption(text)

    # ------------------------------------------------------------------ helpers
    def in_range_goal(self, idx, n):
        return mk_and(num_cmp("<=", 0, idx), num_cmp("<", idx, n))

    def all_elems(self, arr: Arr, pred):
        """forall indices in shape: pred(elem, *idx) as a formula."""
        ivs = [fresh_int("q") for _ in arr.shape]
        guard = mk_and(*[mk_and(num_cmp("<=", 0, i), num_cmp("<", i, d)) for i, d in zip(ivs, arr.shape)])
        body = mk_implies(guard, pred(arr.get(*ivs), *ivs))
        if body is True:
            return True
        return forall(ivs, body)

    def scalar_or_arr_kind(self, v):
        if isinstance(v, Arr):
            return v.kind
        return kind_of(v)

    def broadcast(self, st, vals, node, what="broadcast"):
        """Return (shape, [getter,...]) for elementwise combination of scalars / arrays."""
        arrs = [v for v in vals if isinstance(v, Arr)]
        if not arrs:
            return None, None
        rank = max(a.rank for a in arrs)
        shape = [None] * rank
        plans = []
        for v in vals:
            if not isinstance(v, Arr):
                plans.append(None)
                continue
            off = rank - v.rank
            plan = []
            for d in range(v.rank):
                tgt = off + d
                dim = v.shape[d]
                if isinstance(dim, int) and dim == 1:
                    plan.append((tgt, True))
                else:
                    plan.append((tgt, False))
                    if shape[tgt] is None:
                        shape[tgt] = dim
                    elif shape[tgt] is not dim and not (is_concrete(shape[tgt]) and is_concrete(dim) and shape[tgt] == dim):
                        if not (is_z3(shape[tgt]) and is_z3(dim) and shape[tgt].eq(dim)):
                            self.oblige(st, num_cmp("==", shape[tgt], dim), "lib", f"{what}: compatible shapes", node)
            plans.append(plan)
        shape = [1 if s is None else s for s in shape]
        getters = []
        for v, plan in zip(vals, plans):
            if plan is None:
                getters.append(lambda *idx, v=v: v)
            else:
                def g(*idx, v=v, plan=plan):
                    sub = [0 if one else idx[tgt] for (tgt, one) in plan]
                    return v.get(*sub)
                getters.append(g)
        return tuple(shape), getters

    def elementwise(self, st, fn, vals, node, kind=None, what="elementwise"):
        shape, getters = self.broadcast(st, vals, node, what)
        if shape is None:
            return fn(*vals)
        if kind is None:
            ks = [self.scalar_or_arr_kind(v) for v in vals]
            k = ks[0]
            for k2 in ks[1:]:
                k = join_kind(k, k2)
            kind = k

        def get(*idx):
            return fn(*[g(*idx) for g in getters])

        return Arr(shape, get, kind, own=True)

    def materialise(self, st, arr: Arr, base="m"):
        """Give a closure array a function symbol (definitional axiom added to the path)."""
        if arr.fn is not None:
            return arr
        out = sym_array(base, arr.shape, arr.kind, own=arr.own)
        ivs = [fresh_int("q") for _ in arr.shape]
        guard = mk_and(*[mk_and(num_cmp("<=", 0, i), num_cmp("<", i, d)) for i, d in zip(ivs, arr.shape)])
        lhs = out.get(*ivs)
        rhs = cast(arr.get(*ivs), arr.kind)
        body = mk_implies(guard, num_cmp("==", lhs, rhs))
        st.assume(z3.ForAll(ivs, body, patterns=[lhs]))
        out.affine = arr.affine
        return out

    # ------------------------------------------------------------------ arithmetic / comparison on values
    def binop(self, st, op, a, b, node):
        if isinstance(a, (Lst, tuple)) or isinstance(b, (Lst, tuple)):
            return self.list_binop(st, op, a, b, node)
        if isinstance(a, Arr) or isinstance(b, Arr):
            fn = lambda x, y: self.scalar_binop(st, op, x, y, node, elementwise=True)
            kind = None
            if op == "/":
                kind = "real"
            res = self.elementwise(st, fn, [a, b], node, kind=kind, what=f"operator {op}")
            if op == "/":
                arrb = b if isinstance(b, Arr) else None
                if arrb is not None:
                    self.oblige(st, self.all_elems(arrb, lambda e, *i: num_cmp("!=", e, 0)), "lib", "division: non-zero divisor", node)
                else:
                    self.oblige(st, num_cmp("!=", b, 0), "lib", "division: non-zero divisor", node)
            if op in ("+", "-") and isinstance(res, Arr):
                # keep affine closed form for index arrays: arange +/- int scalar
                if isinstance(a, Arr) and a.affine is not None and is_intv(b) and not isinstance(b, Arr):
                    res.affine = (num_add(a.affine[0], b) if op == "+" else num_sub(a.affine[0], b),)
                elif op == "+" and isinstance(b, Arr) and b.affine is not None and is_intv(a) and not isinstance(a, Arr):
                    res.affine = (num_add(b.affine[0], a),)
            return res
        return self.scalar_binop(st, op, a, b, node)

    def scalar_binop(self, st, op, a, b, node, elementwise=False):
        from .values import OptV
        if (isinstance(a, OptV) and a.nanlike) or (isinstance(b, OptV) and b.nanlike):
            an = a.is_none if isinstance(a, OptV) else False
            bn = b.is_none if isinstance(b, OptV) else False
            av = a.value if isinstance(a, OptV) else a
            bv = b.value if isinstance(b, OptV) else b
            if op in ("/", "//", "%"):
                raise Unsupported("division involving a possibly-nan value")
            return OptV(mk_or(an, bn), self.scalar_binop(st, op, av, bv, node, elementwise), nanlike=True)
        if a is NONE or b is NONE:
            raise Unsupported("arithmetic on None")
        if op == "+":
            return num_add(a, b)
        if op == "-":
            return num_sub(a, b)
        if op == "*":
            return num_mul(a, b)
        if op == "/":
            if not elementwise:
                self.oblige(st, num_cmp("!=", b, 0), "lib", "division: non-zero divisor", node)
            return num_truediv(a, b)
        if op == "//":
            self.oblige(st, num_cmp(">", b, 0), "lib", "floor division: positive divisor", node)
            return num_floordiv(a, b)
        if op == "%":
            self.oblige(st, num_cmp(">", b, 0), "lib", "modulo: positive modulus", node)
            return num_mod(a, b)
        if op == "**":
            return num_pow(a, b)
        if op == "&":
            return mk_and(a, b) if is_boolv(a) and is_boolv(b) else self._unsup("bitwise & on ints")
        if op == "|":
            return mk_or(a, b) if is_boolv(a) and is_boolv(b) else self._unsup("bitwise | on ints")
        raise Unsupported(f"operator {op}")

    def _unsup(self, msg):
        raise Unsupported(msg)

    def compare(self, st, op, a, b, node):
        if op in ("is", "is not"):
            from .values import OptV
            if isinstance(a, OptV) and b is NONE:
                return a.is_none if op == "is" else mk_not(a.is_none)
            if isinstance(b, OptV) and a is NONE:
                return b.is_none if op == "is" else mk_not(b.is_none)
            an, bn = a is NONE, b is NONE
            if not (an or bn):
                if a is b:
                    r0 = True
                else:
                    # identity of two values the engine holds separately is unknown (they may alias): fresh boolean
                    r0 = z3.Bool(fresh_name("same_object"))
                    self.note_assumption("object identity (`is`) between distinct symbolic values is left unconstrained")
                return r0 if op == "is" else mk_not(r0)
            r = (an and bn)
            return r if op == "is" else (not r)
        from .values import OptV as _OptV
        if (isinstance(a, _OptV) and a.nanlike) or (isinstance(b, _OptV) and b.nanlike):
            an = a.is_none if isinstance(a, _OptV) else False
            bn = b.is_none if isinstance(b, _OptV) else False
            av = a.value if isinstance(a, _OptV) else a
            bv = b.value if isinstance(b, _OptV) else b
            anynan = mk_or(an, bn)
            if op == "!=":
                return mk_or(anynan, num_cmp(op, av, bv))
            return mk_and(mk_not(anynan), num_cmp(op, av, bv))       # IEEE: comparisons with nan are False
        if isinstance(a, Arr) or isinstance(b, Arr):
            return self.elementwise(st, lambda x, y: num_cmp(op, x, y), [a, b], node, kind="bool", what=f"comparison {op}")
        if isinstance(a, str) or isinstance(b, str):
            if isinstance(a, str) and isinstance(b, str):
                return (a == b) if op == "==" else (a != b) if op == "!=" else self._unsup("string ordering")
            raise Unsupported("comparison with a symbolic string")
        if a is NONE or b is NONE:
            if op == "==":
                return a is b
            if op == "!=":
                return a is not b
            raise Unsupported("ordering comparison with None (TypeError in python)")
        if isinstance(a, tuple) and isinstance(b, tuple):
            if op in ("==", "!="):
                if len(a) != len(b):
                    return op == "!="
                r = mk_and(*[self.compare(st, "==", x, y, node) for x, y in zip(a, b)])
                return r if op == "==" else mk_not(r)
            raise Unsupported("tuple ordering")
        return num_cmp(op, a, b)

    def unary(self, st, op, a, node):
        if isinstance(a, Arr):
            if op == "-":
                return Arr(a.shape, lambda *i: num_neg(a.get(*i)), a.kind, own=True)
            if op in ("~", "not"):
                if a.kind != "bool":
                    raise Unsupported("~ on non-bool array")
                return Arr(a.shape, lambda *i: mk_not(a.get(*i)), "bool", own=True)
            if op == "+":
                return a
        if op == "-":
            from .values import OptV as _OptV
            if isinstance(a, _OptV) and a.nanlike:
                return _OptV(a.is_none, num_neg(a.value), nanlike=True)      # -nan is nan
            if not is_numv(a):
                raise Unsupported(f"unary minus on {a!r}")
            return num_neg(a)
        if op == "+":
            if isinstance(a, (str, Opaque)):
                raise Unsupported("unary + on a string (TypeError in python)")
            return a
        if op == "~":
            if is_boolv(a):
                return mk_not(a)
            raise Unsupported("~ on int")
        raise Unsupported(f"unary {op}")

    def list_binop(self, st, op, a, b, node):
        if op == "+" and isinstance(a, Lst) and isinstance(b, Lst):
            return self.list_concat(a, b)
        if op == "*" and isinstance(a, Lst) and is_intv(b):
            if a.items is not None and is_concrete(b):
                return Lst.of(a.items * b, a.elem)
            if a.items is not None and len(a.items) == 1:
                it = a.items[0]
                return Lst(num_max(b, 0), lambda i: it, a.elem)
            raise Unsupported("list * symbolic int")
        raise Unsupported(f"list operator {op}")

    def list_concat(self, a: Lst, b: Lst):
        if a.items is not None and b.items is not None:
            return Lst.of(a.items + b.items, a.elem or b.elem)
        la = a.length

        def get(i):
            if is_concrete(i) and is_concrete(la):
                return a.get(i) if i < la else b.get(i - la)
            x, y = a.get(i), b.get(num_sub(i, la))
            c = num_cmp("<", i, la)
            return self.merge_values(c, x, y) if not is_concrete(c) else (x if c else y)

        return Lst(num_add(a.length, b.length), get, a.elem or b.elem)

    # ------------------------------------------------------------------ indexing
    def norm_index(self, st, idx, n, node, what):
        """Scalar index into dimension of size n; negative python constants count from the end. Emits bounds obligation."""
        if is_concrete(idx) and idx < 0:
            idx = num_add(n, idx)
        self.oblige(st, self.in_range_goal(idx, n), "lib", f"{what}: index in bounds (0 <= i < len, no wrap-around)", node)
        return idx

    def norm_slice(self, st, lo, hi, n, node, what):
        if lo is NONE or lo is None:
            lo = 0
        if hi is NONE or hi is None:
            hi = n
        lo0_neg = is_concrete(lo) and lo < 0
        hi0_neg = is_concrete(hi) and hi < 0
        if lo0_neg:
            lo = num_add(n, lo)
        if hi0_neg:
            hi = num_add(n, hi)
        neg_const = (lo0_neg, hi0_neg)
        strict = mk_and(num_cmp("<=", 0, lo), num_cmp("<=", lo, hi), num_cmp("<=", hi, n))
        if strict is True:
            return lo, hi
        spec_node = node is not None and (getattr(node, "_spec", False) or getattr(node, "_ghost", False))
        if spec_node or (strict is not False and self.slice_in_range(st, strict)):
            # the common case: the slice provably lies inside the array -> plain bounds, recorded as an obligation
            self.oblige(st, strict, "lib", f"{what}: slice inside the array (0 <= start <= stop <= len, no truncation)", node)
            return lo, hi
        # python / numpy semantics: out-of-range slice bounds are clamped silently. Symbolic bounds must be non-negative (a negative value would
        # wrap around: excluded by C13); negative literals were resolved against len above and clamp at 0.
        for v, was_neg in ((lo, lo0_neg), (hi, hi0_neg)):
            if not was_neg:
                self.oblige(st, num_cmp("<=", 0, v), "lib", f"{what}: slice bound is non-negative (no wrap-around)", node)
        lo2 = num_min(num_max(lo, 0), n)
        hi2 = num_max(num_min(num_max(hi, 0), n), lo2)
        return lo2, hi2

    def slice_in_range(self, st, strict):
        from .solve import quick_valid
        try:
            return quick_valid(list(st.pc), zbool(strict), timeout=2.0)
        except Exception:
            return False

    def index_arr(self, st, a: Arr, key, node):
        """a[key]; key already evaluated: scalar | ('slice', lo, hi, step) | Arr | Lst | tuple of those."""
        keys = list(key) if isinstance(key, tuple) else [key]
        if len(keys) > a.rank:
            raise Unsupported("too many indices")
        keys = keys + [Slc()] * (a.rank - len(keys))
        # per-dimension plan: ('fix', idx) | ('map', length, f) where f maps out-index -> in-index
        plan = []
        affine = None
        for d, k in enumerate(keys):
            n = a.shape[d]
            if isinstance(k, Slc):
                lo, hi, step = k.lo, k.hi, k.step
                if not (nil(step) or (is_concrete(step) and step == 1)):
                    raise Unsupported("array slice with a step")
                lo, hi = self.norm_slice(st, lo, hi, n, node, "array slice")
                full = (is_concrete(lo) and lo == 0 and hi is n)
                plan.append(("map", num_sub(hi, lo), (lambda o, lo=lo: num_add(lo, o)), full))
                if a.rank == 1 and a.affine is not None:
                    affine = (num_add(a.affine[0], lo),)
            elif isinstance(k, Arr):
                if k.kind == "bool":
                    if a.rank == 1 and len(keys) == 1:
                        return self.mask_gather(st, a, k, node)
                    raise Unsupported("boolean mask index on a 2-D array")
                if k.rank != 1:
                    raise Unsupported("index array of rank != 1")
                if k.kind != "int":
                    raise Unsupported("float index array (IndexError in numpy)")
                self.oblige(st, self.all_elems(k, lambda e, *i: self.in_range_goal(e, n)), "lib",
                            "fancy index: every index in bounds (0 <= i < len, no wrap-around)", node)
                plan.append(("map", k.shape[0], (lambda o, k=k: k.get(o)), False))
            elif isinstance(k, Lst):
                if k.items is None:
                    raise Unsupported("symbolic list index")
                items = list(k.items)
                for it in items:
                    self.norm_index(st, it, n, node, "list index")
                from .values import _select
                plan.append(("map", len(items), (lambda o, items=items: items[o] if is_concrete(o) else _select(items, o)), False))
            else:
                if not is_intv(k):
                    raise Unsupported(f"index of kind {k!r}")
                plan.append(("fix", self.norm_index(st, k, n, node, "array index")))
        out_dims = [p for p in plan if p[0] == "map"]
        if not out_dims:
            idxs = [p[1] for p in plan]
            if a.nanmask is not None:
                from .values import OptV
                return OptV(a.nanmask(*idxs), a.get(*idxs), nanlike=True)
            return a.get(*idxs)
        if a.nanmask is not None:
            raise Unsupported("slicing / gathering a possibly-nan array")
        shape = tuple(p[1] for p in out_dims)

        def get(*idx):
            it = iter(idx)
            full = []
            for p in plan:
                if p[0] == "fix":
                    full.append(p[1])
                else:
                    full.append(p[2](next(it)))
            return a.get(*full)

        res = Arr(shape, get, a.kind, own=False, view_of=a, affine=affine)
        if a.rank == 1 and len(plan) == 1 and plan[0][0] == "map" and isinstance(keys[0], Slc):
            res.slice_of = (a, plan[0][2](0))       # (base array, offset): res[i] == base[offset + i]
        if a.rank == 2 and isinstance(keys[0], Slc) and plan[0][0] == "map" and isinstance(keys[1], Slc) and nil(keys[1].lo) and nil(keys[1].hi):
            res.row_slice_of = (a, plan[0][2](0), shape[0])       # rows [offset, offset + length) of the base array, all columns
        return res

    def mask_gather(self, st, a: Arr, mask: Arr, node):
        """a[mask] for 1-D a and boolean mask: order preserving sub-sequence (assumed NumPy contract)."""
        n = a.shape[0]
        self.oblige(st, num_cmp("==", mask.shape[0], n), "lib", "boolean mask index: mask length equals array length", node)
        maps = getattr(mask, "_gather_maps", None)
        if maps is None:
            L = z3.Int(fresh_name("glen"))
            src = z3.Function(fresh_name("gsrc"), z3.IntSort(), z3.IntSort())   # out position -> source position
            pos = z3.Function(fresh_name("gpos"), z3.IntSort(), z3.IntSort())   # source position -> out position
            mask._gather_maps = (L, src, pos)
            first = True
        else:
            L, src, pos = maps      # the same mask selects the same positions: aligned gathers share the maps
            first = False
        res = sym_array("gath", (L,), a.kind, own=True)
        k, k2, i = fresh_int("k"), fresh_int("k"), fresh_int("i")
        rk = res.get(k)
        if not first:
            st.assume(z3.ForAll([k], z3.Implies(z3.And(k >= 0, k < L), rk == cast(a.get(src(k)), a.kind)), patterns=[rk]))
            res.gather_src, res.gather_pos = src, pos
            return res
        st.assume(mk_and(L >= 0, L <= to_z3(n)))
        st.assume(z3.ForAll([k], z3.Implies(z3.And(k >= 0, k < L),
                                            z3.And(src(k) >= 0, src(k) < to_z3(n), mask.get(src(k)),
                                                   rk == cast(a.get(src(k)), a.kind), pos(src(k)) == k)),
                            patterns=[rk, src(k)]))
        st.assume(z3.ForAll([k, k2], z3.Implies(z3.And(k >= 0, k < k2, k2 < L), src(k) < src(k2)),
                            patterns=[z3.MultiPattern(src(k), src(k2))]))
        mi = mask.get(i)
        st.assume(z3.ForAll([i], z3.Implies(z3.And(i >= 0, i < to_z3(n), mi),
                                            z3.And(pos(i) >= 0, pos(i) < L, src(pos(i)) == i)),
                            patterns=[pos(i)] + ([mi] if z3.is_app(mi) and mi.decl().kind() == z3.Z3_OP_UNINTERPRETED else [])))
        res.gather_src = src
        res.gather_pos = pos
        self.note_assumption("numpy: a[mask] is the order-preserving sub-sequence of the elements where mask is True")
        return res

    # ------------------------------------------------------------------ stores (return the new array value)
    def store_arr(self, st, a: Arr, key, val, node):
        keys = list(key) if isinstance(key, tuple) else [key]
        if len(keys) > a.rank:
            raise Unsupported("too many indices in store")
        keys = keys + [Slc()] * (a.rank - len(keys))
        # boolean-mask forms
        if a.rank == 1 and isinstance(keys[0], Arr) and keys[0].kind == "bool":
            m = keys[0]
            self.oblige(st, num_cmp("==", m.shape[0], a.shape[0]), "lib", "boolean mask store: mask length equals array length", node)
            if isinstance(val, Arr):
                raise Unsupported("mask store of an array value")
            v = cast(val, a.kind)
            return a.with_(get=lambda i: mk_ite(m.get(i), v, a.get(i)), fn=None, affine=None)
        if a.rank == 2 and isinstance(keys[0], Arr) and keys[0].kind == "bool" and is_intv(keys[1]):
            m, j = keys[0], self.norm_index(st, keys[1], a.shape[1], node, "array store")
            self.oblige(st, num_cmp("==", m.shape[0], a.shape[0]), "lib", "boolean mask store: mask length equals array length", node)
            if isinstance(val, Arr):
                raise Unsupported("mask store of an array value")
            v = cast(val, a.kind)
            return a.with_(get=lambda r, c: mk_ite(mk_and(num_cmp("==", c, j), m.get(r)), v, a.get(r, c)), fn=None, affine=None)
        # general: each dim fixed / slice / index-array (affine or length 1)
        conds = []      # per dim: function idx -> (inside: Bool, out_index or None)
        out_dims = 0
        for d, k in enumerate(keys):
            n = a.shape[d]
            if isinstance(k, Slc):
                lo, hi, step = k.lo, k.hi, k.step
                if not (nil(step) or (is_concrete(step) and step == 1)):
                    raise Unsupported("slice store with a step")
                lo, hi = self.norm_slice(st, lo, hi, n, node, "array slice store")
                conds.append(("slice", lo, hi))
                out_dims += 1
            elif isinstance(k, Arr):
                if k.kind != "int" or k.rank != 1:
                    raise Unsupported("store through a non-integer / non-1-D index array")
                self.oblige(st, self.all_elems(k, lambda e, *i: self.in_range_goal(e, n)), "lib",
                            "fancy store: every index in bounds (0 <= i < len, no wrap-around)", node)
                if k.affine is not None:
                    conds.append(("slice", k.affine[0], num_add(k.affine[0], k.shape[0])))
                elif isinstance(k.shape[0], int) and k.shape[0] == 1:
                    conds.append(("slice", k.get(0), num_add(k.get(0), 1)))
                elif not isinstance(val, Arr):
                    conds.append(("member", k))       # scalar store through an arbitrary index array: position i is hit iff some k[r] == i
                else:
                    raise Unsupported("store of an array value through a general index array")
                out_dims += 1
            else:
                conds.append(("fix", self.norm_index(st, k, n, node, "array store")))
        if isinstance(val, Arr) and val.rank == out_dims + 1 and isinstance(val.shape[0], int) and val.shape[0] == 1:
            v0 = val          # numpy broadcasting: a leading axis of length 1 is dropped (row store of a (1, q) array)
            val = Arr(tuple(v0.shape[1:]), (lambda *j, v0=v0: v0.get(0, *j)), v0.kind)
        if isinstance(val, Arr):
            if val.rank > out_dims:
                raise Unsupported("store value of too high rank")
            # shape compatibility (broadcast of leading dims allowed only when equal rank here)
            tgt_lens = [num_sub(c[2], c[1]) for c in conds if c[0] == "slice"]
            if any(c[0] == "member" for c in conds):
                raise Unsupported("store of an array value through a general index array")
            off = out_dims - val.rank
            for d in range(val.rank):
                vd = val.shape[d]
                if isinstance(vd, int) and vd == 1:
                    continue
                self.oblige(st, num_cmp("==", vd, tgt_lens[off + d]), "lib", "store: value shape matches target shape", node)
        kind = a.kind
        if kind == "int" and a.nanmask is None and ((isinstance(val, Arr) and val.kind == "real") or (not isinstance(val, Arr) and is_realv(val))):
            # numpy truncates silently: the stored value is not the value computed -> a failed obligation, then an unconstrained integer
            self.oblige(st, False, "lib", "store of a real value into an integer-typed array (silent truncation)", node)
            trunc = sym_array("trunc", a.shape, "int", own=True)
            return trunc
        new_nan = None
        if a.nanmask is not None:
            from .values import OptV
            if isinstance(val, Arr):
                raise Unsupported("array store into a possibly-nan array")
            vnan = val.is_none if isinstance(val, OptV) else False
            val = val.value if isinstance(val, OptV) else val
            old_nan = a.nanmask

            def new_nan(*idx):
                inside = []
                for c, i in zip(conds, idx):
                    if c[0] == "member":
                        raise Unsupported("member store into a possibly-nan array")
                    inside.append(num_cmp("==", i, c[1]) if c[0] == "fix" else mk_and(num_cmp("<=", c[1], i), num_cmp("<", i, c[2])))
                return mk_ite_bool(mk_and(*inside), vnan, old_nan(*idx))

        def _member(k, i):
            from .state import exists, fresh_int
            r = fresh_int("r")
            return exists([r], mk_and(r >= 0, num_cmp("<", r, k.shape[0]), num_cmp("==", k.get(r), i)))

        def get(*idx):
            inside, outs = [], []
            for c, i in zip(conds, idx):
                if c[0] == "fix":
                    inside.append(num_cmp("==", i, c[1]))
                elif c[0] == "member":
                    inside.append(_member(c[1], i))
                else:
                    inside.append(mk_and(num_cmp("<=", c[1], i), num_cmp("<", i, c[2])))
                    outs.append(num_sub(i, c[1]))
            if isinstance(val, Arr):
                off = len(outs) - val.rank
                sub = [0 if (isinstance(val.shape[d], int) and val.shape[d] == 1) else outs[off + d] for d in range(val.rank)]
                v = cast(val.get(*sub), kind)
            else:
                v = cast(val, kind)
            return mk_ite(mk_and(*inside), v, a.get(*idx))

        if new_nan is not None:
            return a.with_(get=get, fn=None, affine=None, nanmask=new_nan)
        return a.with_(get=get, fn=None, affine=None)
