"""Discharging obligations.

Every query is written as SMT-LIB and handed to solver *processes* (z3 5.1 CLI from the wheel, then cvc5), because
z3's nonlinear core ignores both `rlimit` and `timeout` on some inputs: a child process can always be killed.
Portfolio, in order: z3 e-matching only; z3 with MBQI; cvc5.  `unsat` from any of them discharges the obligation.
`sat` is only believed from z3 (a model is requested); `unknown`/timeout never counts as a violation.
"""
from __future__ import annotations

import os
import re
import subprocess
import sys
import tempfile
import time

import z3

HERE = os.path.dirname(os.path.dirname(os.path.abspath(__file__)))
Z3_BIN = os.path.join(os.path.dirname(sys.executable), "z3")
if not os.path.exists(Z3_BIN):
    Z3_BIN = "/usr/local/bin/z3-new"
CVC5 = "/usr/bin/cvc5"
TIMEOUT_S = float(os.environ.get("VERIF_TIMEOUT_S", "30"))
RLIMIT_QUICK = 0


def to_smt2(hyps, goal, get_model=False):
    s = z3.Solver()
    for h in hyps:
        s.add(h)
    s.add(z3.Not(goal))
    txt = s.to_smt2()
    if get_model:
        txt = txt.replace("(check-sat)", "(check-sat)\n(get-model)")
    return txt


def _run(cmd, path, timeout):
    t0 = time.time()
    try:
        p = subprocess.run(cmd + [path], capture_output=True, text=True, timeout=timeout + 5)
        out = p.stdout.strip()
        first = out.splitlines()[0].strip() if out else ""
        return first, out, time.time() - t0
    except subprocess.TimeoutExpired:
        return "timeout", "", time.time() - t0


def check_smt2(smt2: str, timeout=None, want_model=False, use_cvc5=True, tmpdir=None):
    timeout = timeout or TIMEOUT_S
    t0 = time.time()
    fd, path = tempfile.mkstemp(suffix=".smt2", dir=tmpdir)
    with os.fdopen(fd, "w") as fh:
        fh.write(smt2)
    reason = []
    try:
        budgets = [("z3-ematch", ["smt.mbqi=false", "smt.auto_config=false"], max(5.0, timeout / 3)),
                   ("z3-mbqi", ["smt.mbqi=true"], timeout)]
        for name, opts, tmo in budgets:
            first, out, dt = _run([Z3_BIN, f"-T:{int(tmo)}", "-smt2"] + opts, path, tmo)
            if first == "unsat":
                return {"status": "proved", "backend": name, "time_s": time.time() - t0}
            if first == "sat":
                res = {"status": "refuted", "backend": name, "time_s": time.time() - t0}
                if want_model:
                    res["model"] = out[out.find("\n") + 1:] if "\n" in out else ""
                return res
            reason.append(f"{name}: {first or 'no answer'}")
        if use_cvc5 and os.path.exists(CVC5):
            with open(path) as fh:
                txt = fh.read()
            txt = "(set-logic ALL)\n" + txt.replace("(get-model)", "")
            with open(path, "w") as fh:
                fh.write(txt)
            first, out, dt = _run([CVC5, "--lang", "smt2", f"--tlimit={int(timeout * 1000)}"], path, timeout)
            if first == "unsat":
                return {"status": "proved", "backend": "cvc5", "time_s": time.time() - t0}
            reason.append(f"cvc5: {first or 'no answer'}")
        return {"status": "unknown", "backend": "-", "time_s": time.time() - t0, "reason": "; ".join(reason)}
    finally:
        try:
            os.unlink(path)
        except OSError:
            pass


def check_valid(hyps, goal, rlimit=None, want_model=False, use_cvc5=True, timeout=None):
    return check_smt2(to_smt2(hyps, goal, get_model=want_model), timeout=timeout, want_model=want_model, use_cvc5=use_cvc5)


def second_opinion(smt2: str, timeout=10.0):
    """cvc5 alone on a query z3 answered `unsat`: 'unsat' (confirmed) | 'sat' (DISAGREEMENT) | 'unknown'."""
    if not os.path.exists(CVC5):
        return "unavailable"
    fd, path = tempfile.mkstemp(suffix=".smt2")
    with os.fdopen(fd, "w") as fh:
        fh.write("(set-logic ALL)\n" + smt2.replace("(get-model)", ""))
    try:
        first, out, dt = _run([CVC5, "--lang", "smt2", f"--tlimit={int(timeout * 1000)}"], path, timeout)
    finally:
        try:
            os.unlink(path)
        except OSError:
            pass
    return first if first in ("unsat", "sat") else "unknown"


def quick_valid(hyps, goal, timeout=2.0):
    """Cheap entailment probe used DURING symbolic execution (e-matching only, one short z3 run): True only when proved."""
    fd, path = tempfile.mkstemp(suffix=".smt2")
    with os.fdopen(fd, "w") as fh:
        fh.write(to_smt2(hyps, goal))
    try:
        first, out, dt = _run([Z3_BIN, f"-T:{max(1, int(timeout))}", "-smt2", "smt.mbqi=false", "smt.auto_config=false"], path, timeout)
    finally:
        try:
            os.unlink(path)
        except OSError:
            pass
    return first == "unsat"


def satisfiable(formulas, timeout=3):
    """Vacuity probe: sat / unsat / unknown."""
    s = z3.Solver()
    for f in formulas:
        s.add(f)
    fd, path = tempfile.mkstemp(suffix=".smt2")
    with os.fdopen(fd, "w") as fh:
        fh.write(s.to_smt2())
    try:
        first, out, dt = _run([Z3_BIN, f"-T:{int(timeout)}", "-smt2"], path, timeout)
    finally:
        os.unlink(path)
    return first if first in ("sat", "unsat") else "unknown"
