"""Symbolic values and z3 helpers.

Scalars are python numbers/bools when concrete, else z3 terms (Int / Real / Bool sorts).
Arrays are "lambda arrays": a shape (tuple of Int terms or python ints) and a python closure
mapping index terms to an element term -- never z3 Store terms (see DESIGN 6.2).
"""
from __future__ import annotations

import itertools
from fractions import Fraction

import z3

_counter = itertools.count()


def fresh_name(base):
    return f"{base}!{next(_counter)}"


class Unsupported(Exception):
    """Construct outside the verified subset."""


class EngineError(Exception):
    pass


# ----------------------------------------------------------------------------- scalars
def is_z3(x):
    return isinstance(x, z3.ExprRef)


def is_concrete(x):
    return isinstance(x, (bool, int, float, Fraction)) and not is_z3(x)


def is_boolv(x):
    return isinstance(x, bool) or (is_z3(x) and z3.is_bool(x))


def is_intv(x):
    return (isinstance(x, int) and not isinstance(x, bool)) or (is_z3(x) and z3.is_int(x))


def is_realv(x):
    return isinstance(x, (float, Fraction)) or (is_z3(x) and z3.is_real(x))


def is_numv(x):
    return is_intv(x) or is_realv(x) or isinstance(x, bool)


def kind_of(x):
    if is_boolv(x):
        return "bool"
    if is_intv(x):
        return "int"
    if is_realv(x):
        return "real"
    raise EngineError(f"not a scalar: {x!r}")


def to_z3(x):
    if is_z3(x):
        return x
    if isinstance(x, bool):
        return z3.BoolVal(x)
    if isinstance(x, int):
        return z3.IntVal(x)
    if isinstance(x, Fraction):
        return z3.RealVal(x)
    if isinstance(x, float):
        if x != x or x in (float("inf"), float("-inf")):
            raise Unsupported("nan/inf literal used as a plain real")
        return z3.RealVal(Fraction(x))
    raise EngineError(f"cannot convert {x!r} to z3")


def to_real(x):
    if is_z3(x):
        if z3.is_real(x):
            return x
        if z3.is_int(x):
            return z3.ToReal(x)
        if z3.is_bool(x):
            return z3.If(x, z3.RealVal(1), z3.RealVal(0))
    if isinstance(x, bool):
        return Fraction(int(x))
    if isinstance(x, int):
        return Fraction(x)
    if isinstance(x, float):
        return Fraction(x)
    return x


def to_int_from_bool(x):
    if isinstance(x, bool):
        return int(x)
    if is_z3(x) and z3.is_bool(x):
        return z3.If(x, z3.IntVal(1), z3.IntVal(0))
    return x


def zbool(x):
    """Coerce to z3 Bool."""
    if isinstance(x, bool):
        return z3.BoolVal(x)
    if is_z3(x) and z3.is_bool(x):
        return x
    raise EngineError(f"not boolean: {x!r}")


def mk_and(*xs):
    out = []
    for x in xs:
        if x is True:
            continue
        if x is False:
            return False
        out.append(x)
    if not out:
        return True
    if len(out) == 1:
        return out[0]
    return z3.And(*out)


def mk_or(*xs):
    out = []
    for x in xs:
        if x is False:
            continue
        if x is True:
            return True
        out.append(x)
    if not out:
        return False
    if len(out) == 1:
        return out[0]
    return z3.Or(*out)


def mk_not(x):
    if isinstance(x, bool):
        return not x
    return z3.Not(x)


def mk_implies(a, b):
    if a is True:
        return b
    if a is False:
        return True
    if b is True:
        return True
    return z3.Implies(a, zbool(b))


def mk_ite(c, a, b):
    if c is True:
        return a
    if c is False:
        return b
    if is_numv(a) and is_numv(b):
        if is_realv(a) or is_realv(b):
            a, b = to_real(a), to_real(b)
        if is_boolv(a) != is_boolv(b):
            a, b = to_int_from_bool(a), to_int_from_bool(b)
        return z3.If(c, to_z3(a), to_z3(b))
    raise EngineError("ite over non-scalars")


def _arith_pair(a, b):
    a, b = to_int_from_bool(a), to_int_from_bool(b)
    if is_realv(a) or is_realv(b):
        a, b = to_real(a), to_real(b)
    if is_z3(a) and not is_z3(b):
        b = to_z3(b) if not (is_concrete(b) and b in (0, 1)) else b
    elif is_z3(b) and not is_z3(a):
        a = to_z3(a) if not (is_concrete(a) and a in (0, 1)) else a
    return a, b


def num_add(a, b):
    a, b = _arith_pair(a, b)
    if is_concrete(a) and a == 0:
        return b
    if is_concrete(b) and b == 0:
        return a
    return a + b


def num_sub(a, b):
    a, b = _arith_pair(a, b)
    if is_concrete(b) and b == 0:
        return a
    return a - b


def num_mul(a, b):
    a, b = _arith_pair(a, b)
    if is_concrete(a) and a == 1:
        return b
    if is_concrete(b) and b == 1:
        return a
    if (is_concrete(a) and a == 0) or (is_concrete(b) and b == 0):
        return 0 if (is_intv(a) and is_intv(b)) else Fraction(0)
    return a * b


def num_neg(a):
    a = to_int_from_bool(a)
    return -a


def num_truediv(a, b):
    a, b = to_real(to_int_from_bool(a)), to_real(to_int_from_bool(b))
    if is_concrete(a) and is_concrete(b):
        return Fraction(a) / Fraction(b)
    return to_z3(a) / to_z3(b)


def num_floordiv(a, b):
    a, b = to_int_from_bool(a), to_int_from_bool(b)
    if not (is_intv(a) and is_intv(b)):
        raise Unsupported("floor division on reals")
    if is_concrete(a) and is_concrete(b):
        return a // b
    return to_z3(a) / to_z3(b)      # z3 Int division; equals floor for positive divisors (obligation at use site)


def num_mod(a, b):
    if not (is_intv(a) and is_intv(b)):
        raise Unsupported("modulo on reals")
    if is_concrete(a) and is_concrete(b):
        return a % b
    return to_z3(a) % to_z3(b)


def num_pow(a, b):
    if is_concrete(b) and not isinstance(b, bool) and b == int(b) and 0 <= int(b) <= 4:
        n = int(b)
        if n == 0:
            return 1
        r = a
        for _ in range(n - 1):
            r = num_mul(r, a)
        return r
    raise Unsupported(f"power with exponent {b!r}")


def num_cmp(op, a, b):
    if is_boolv(a) and is_boolv(b) and op in ("==", "!="):
        if is_concrete(a) and is_concrete(b):
            return (a == b) if op == "==" else (a != b)
        r = zbool(a) == zbool(b)
        return r if op == "==" else z3.Not(r)
    a, b = _arith_pair(a, b)
    if is_concrete(a) and is_concrete(b):
        return {"==": a == b, "!=": a != b, "<": a < b, "<=": a <= b, ">": a > b, ">=": a >= b}[op]
    a, b = to_z3(a), to_z3(b)
    if a.eq(b):
        return op in ("==", "<=", ">=")
    return {"==": a == b, "!=": a != b, "<": a < b, "<=": a <= b, ">": a > b, ">=": a >= b}[op]


def num_min(a, b):
    if is_concrete(a) and is_concrete(b):
        return min(a, b)
    return mk_ite(num_cmp("<=", a, b), a, b)


def num_max(a, b):
    if is_concrete(a) and is_concrete(b):
        return max(a, b)
    return mk_ite(num_cmp(">=", a, b), a, b)


def num_abs(a):
    if is_concrete(a):
        return abs(a)
    return mk_ite(num_cmp(">=", a, 0), a, num_neg(a))


def sort_of(kind):
    return {"int": z3.IntSort(), "real": z3.RealSort(), "bool": z3.BoolSort()}[kind]


def fresh_scalar(kind, base="v"):
    return z3.Const(fresh_name(base), sort_of(kind))


def cast(x, kind):
    """Cast scalar x to element kind."""
    if kind == "real":
        return to_real(to_int_from_bool(x))
    if kind == "int":
        x = to_int_from_bool(x)
        if is_realv(x):
            raise EngineError("implicit real->int cast")
        return x
    if kind == "bool":
        if is_boolv(x):
            return x
        return num_cmp("!=", x, 0)
    raise EngineError(kind)


# ----------------------------------------------------------------------------- compound values
class NoneV:
    """Python None (singleton NONE)."""

    def __repr__(self):
        return "None"


NONE = NoneV()


def nil(x):
    return x is None or x is NONE


class Opaque:
    """A value the engine does not interpret (strings, dtype objects, external objects)."""

    def __init__(self, tag, payload=None):
        self.tag = tag
        self.payload = payload

    def __repr__(self):
        return f"<opaque {self.tag} {self.payload!r}>"


class Arr:
    """ndarray of static rank. kind in int/real/bool. get(*idx) -> scalar term.

    affine: for rank-1 int arrays that are arange(lo, hi)+c: (first_value,) meaning get(i) == first_value + i.
    fn: z3 FuncDeclRef when the array is backed by an uninterpreted symbol (needed by spec functions).
    own: True when allocated inside the current function (stores allowed).
    """

    def __init__(self, shape, get, kind, *, fn=None, affine=None, own=False, name=None, view_of=None, nanmask=None):
        self.shape = tuple(shape)
        self.get = get
        self.kind = kind
        self.fn = fn
        self.affine = affine
        self.own = own
        self.name = name
        self.view_of = view_of
        self.nanmask = nanmask      # None, or closure idx -> Bool: element is nan (value then irrelevant)

    @property
    def rank(self):
        return len(self.shape)

    def with_(self, **kw):
        d = dict(shape=self.shape, get=self.get, kind=self.kind, fn=self.fn, affine=self.affine, own=self.own,
                 name=self.name, view_of=self.view_of, nanmask=self.nanmask)
        d.update(kw)
        shape = d.pop("shape")
        get = d.pop("get")
        kind = d.pop("kind")
        return Arr(shape, get, kind, **d)

    def __repr__(self):
        return f"<Arr {self.kind}{list(self.shape)} {self.name or ''}>"


def sym_array(name, shape, kind, own=False, unique=True):
    nm = fresh_name(name) if unique else name
    fn = z3.Function(nm, *([z3.IntSort()] * len(shape)), sort_of(kind))

    def get(*idx):
        return fn(*[to_z3(i) for i in idx])

    return Arr(shape, get, kind, fn=fn, own=own, name=nm)


def _nil_comp(k):
    if isinstance(k, str) and k.startswith("arr:"):
        ef = z3.Function(fresh_name("nilarr"), z3.IntSort(), sort_of(k[4:]))
        return Arr((z3.Int(fresh_name("nillen")),), (lambda j, ef=ef: ef(to_z3(j))), k[4:])
    return z3.Const(fresh_name("nil"), sort_of(k))


class Lst:
    """Python list: length (Int term or python int) and elem getter returning a value (scalar or tuple)."""

    def __init__(self, length, get, elem=None, items=None):
        self.length = length
        self.get = get
        self.elem = elem          # description of element type: 'int' | 'real' | ('tuple', [kinds]) | None
        self.items = items        # python list of values when fully concrete-length

    @staticmethod
    def of(items, elem=None):
        items = list(items)

        def get(i):
            if is_concrete(i) and 0 <= i < len(items):
                return items[i]
            if not items or is_concrete(i):
                # only reachable in specification expressions under a vacuous range guard
                if isinstance(elem, tuple) and elem[0] == "tuple":
                    return tuple(_nil_comp(k) for k in elem[1])
                return z3.Const(fresh_name("nil"), sort_of(elem if isinstance(elem, str) else "int"))
            return _select(items, i)

        return Lst(len(items), get, elem, items)

    def __repr__(self):
        return f"<Lst len={self.length}>"


def _select(items, i):
    """ITE chain selecting items[i] for symbolic i (items scalar or tuples of scalars)."""
    first = items[0]
    if isinstance(first, tuple):
        return tuple(_select([it[k] for it in items], i) for k in range(len(first)))
    r = items[-1]
    for k in range(len(items) - 2, -1, -1):
        r = mk_ite(i == k, items[k], r)
    return r


def sym_list(name, elem, length=None):
    """Fresh symbolic list. elem: 'int'|'real'|'bool' or ('tuple', [kinds])."""
    n = length if length is not None else z3.Int(fresh_name(name + "_len"))
    if isinstance(elem, tuple) and elem[0] == "tuple":
        comps = []
        for k, kd in enumerate(elem[1]):
            if kd.startswith("arr:"):
                ek = kd[4:]
                lf = z3.Function(fresh_name(f"{name}_{k}len"), z3.IntSort(), z3.IntSort())
                ef = z3.Function(fresh_name(f"{name}_{k}elt"), z3.IntSort(), z3.IntSort(), sort_of(ek))
                comps.append(("arr", ek, lf, ef))
            else:
                comps.append(("sc", z3.Function(fresh_name(f"{name}_{k}"), z3.IntSort(), sort_of(kd))))

        def get(i):
            out = []
            for c in comps:
                if c[0] == "sc":
                    out.append(c[1](to_z3(i)))
                else:
                    _, ek, lf, ef = c
                    out.append(Arr((lf(to_z3(i)),), (lambda j, i=i, ef=ef: ef(to_z3(i), to_z3(j))), ek))
            return tuple(out)

        lst = Lst(n, get, elem)
        lst.fns = [c[1] if c[0] == "sc" else c[3] for c in comps]
        lst.len_fns = [c[2] for c in comps if c[0] == "arr"]
        return lst
    fn = z3.Function(fresh_name(name), z3.IntSort(), sort_of(elem))
    lst = Lst(n, lambda i: fn(to_z3(i)), elem)
    lst.fns = [fn]
    return lst


class ObjRef:
    """Reference to a heap object of a repository class (static class)."""

    def __init__(self, oid, cls):
        self.oid = oid
        self.cls = cls      # ClassInfo

    def __repr__(self):
        return f"<obj {self.cls.name}#{self.oid}>"


class FuncRef:
    """Reference to a repository function / bound method / class / external callable."""

    def __init__(self, kind, target, self_obj=None, name=None):
        self.kind = kind          # 'func' | 'method' | 'class' | 'external' | 'lambda' | 'spec'
        self.target = target
        self.self_obj = self_obj
        self.name = name

    def __repr__(self):
        return f"<fn {self.kind} {self.name or self.target}>"


class ModRef:
    def __init__(self, name):
        self.name = name

    def __repr__(self):
        return f"<module {self.name}>"


class Slc:
    """slice(lo, hi, step) with evaluated (or None) components."""

    def __init__(self, lo=None, hi=None, step=None):
        self.lo, self.hi, self.step = lo, hi, step


class OptV:
    """A value that is None on some paths: (is_none: Bool term, value)."""

    def __init__(self, is_none, value, nanlike=False):
        self.is_none = is_none
        self.value = value
        self.nanlike = nanlike      # True: a float that may be nan (IEEE: arithmetic propagates, comparisons are False)
