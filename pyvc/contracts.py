"""Contract objects and registry (the sidecar specifications in /verif/specs use these)."""
from __future__ import annotations

from dataclasses import dataclass, field

REGISTRY: dict[str, list["Contract"]] = {}
LEMMAS: dict[str, "object"] = {}


@dataclass
class Contract:
    """Contract of one repository function (or of one *variant* of it: fixed static ranks / None-ness).

    target      "path::qualname" in the repository.
    params      name -> type string:  int | real | bool | none | str | any | int[k] | real[n,p] | bool[n] |
                list[int] | list[(int,int)] | obj:Class | fn | opt:int ...
                Identifiers in array dims are shape variables (bound on first use, constrained afterwards).
    requires    list of python-syntax boolean expressions over params / shape vars / spec functions.
    ensures     name -> expression over params, `result`, old(...).
    raises      exception name -> expression: the function raises that exception *iff* the expression holds
                (checked in both directions). Exceptions not listed must not escape.
    returns     type string of the result (used when the contract is applied at a call site).
    invariants  "loop#k" -> {name: expr}  (k = 1-based pre-order ordinal of the loop in the function).
    loop_vars   "loop#k" -> {var: type string} types for variables havocked by the loop (when not inferable).
    decreases   "loop#k" -> integer expression (while loops).
    ghost       list of (anchor, code) ghost statements; anchor = "before:<stmt text>" | "after:<stmt text>" | "entry"
    modifies    names of parameters (arrays / objects) the function may mutate. Default: nothing.
    lets        name -> expression, definitions usable in requires/ensures/invariants (evaluated at entry).
    props       property ids served by this contract's clauses (default for all clauses).
    clause_props  clause name -> list of property ids (overrides props).
    inline      if True the function is never verified on its own nor used modularly: callers execute its body.
    assumed     if True: no body verification; the contract is an assumption (external / trusted), listed in evidence.
    level       'P' (proved) | 'B' (bounded only) | 'A' (assumed).
    variant     label for this variant.
    uses        lemma instances to add as hypotheses: list of expressions evaluated at entry (e.g. "L_prefix(sums, X)").
    """

    target: str
    params: dict = field(default_factory=dict)
    requires: list = field(default_factory=list)
    ensures: dict = field(default_factory=dict)
    raises: dict = field(default_factory=dict)
    returns: str | None = None
    invariants: dict = field(default_factory=dict)
    loop_vars: dict = field(default_factory=dict)
    decreases: dict = field(default_factory=dict)
    ghost: list = field(default_factory=list)
    modifies: list = field(default_factory=list)
    lets: dict = field(default_factory=dict)
    props: list = field(default_factory=list)
    clause_props: dict = field(default_factory=dict)
    inline: bool = False
    assumed: bool = False
    level: str = "P"
    variant: str = ""
    uses: list = field(default_factory=list)
    post_uses: list = field(default_factory=list)
    self_class: str | None = None     # static class of `self` for methods verified per concrete class
    note: str = ""
    when: str | None = None           # applicability guard for call-site selection among variants (python expr on static facts)
    cone: list = field(default_factory=list)   # extra targets whose obligations this contract relies on
    ghost_params: dict = field(default_factory=dict)   # logical (ghost) parameters: name -> type; supplied by callers via call_ghosts
    call_ghosts: dict = field(default_factory=dict)    # statement text -> {callee function name: {ghost name: expr in the caller's scope}}

    @property
    def ident(self):
        base = self.target.split("::")[1]
        if self.self_class and not base.startswith(self.self_class + "."):
            base = f"{self.self_class}:{base}"
        return base + (f"<{self.variant}>" if self.variant else "")


def contract(**kw) -> Contract:
    c = Contract(**kw)
    REGISTRY.setdefault(c.target, []).append(c)
    return c


def contracts_for(target: str) -> list[Contract]:
    return REGISTRY.get(target, [])


def all_contracts():
    for lst in REGISTRY.values():
        yield from lst
