"""Models of numpy functions / ndarray methods (assumed contracts on NumPy, DESIGN 3.4)."""
from __future__ import annotations

from fractions import Fraction

import z3

from .npmodel import LOG, PI, SQRT, join_kind
from .state import forall, fresh_int
from .values import (nil, NONE, Slc, Arr, EngineError, Lst, Opaque, Unsupported, cast, fresh_name, fresh_scalar, is_boolv,
                     is_concrete, is_intv, is_numv, is_realv, is_z3, kind_of, mk_and, mk_implies, mk_ite, mk_not,
                     mk_or, num_abs, num_add, num_cmp, num_max, num_min, num_mul, num_neg, num_sub, num_truediv,
                     sort_of, sym_array, to_int_from_bool, to_real, to_z3)

_ROWSUM = {}
_TOTSUM = {}


def rowsum_fn(arr: Arr):
    """ROWSUM symbol attached to a symbol-backed 2-D array: ROWSUM_A(i) = sum_j A[i, j]."""
    key = arr.fn.name()
    if key not in _ROWSUM:
        _ROWSUM[key] = z3.Function("ROWSUM_" + key, z3.IntSort(), z3.RealSort() if arr.kind == "real" else z3.IntSort())
    return _ROWSUM[key]


def totsum_fn(arr: Arr):
    key = arr.fn.name()
    if key not in _TOTSUM:
        _TOTSUM[key] = z3.Const("TOTSUM_" + key, z3.RealSort() if arr.kind == "real" else z3.IntSort())
    return _TOTSUM[key]


class NumpyFuncs:
    def dtype_kind(self, v):
        if v is NONE or v is None:
            return None
        if isinstance(v, Opaque) and v.tag == "dtype":
            return v.payload
        if isinstance(v, str):
            return {"int64": "int", "int": "int", "float": "real", "float64": "real", "bool": "bool"}.get(v)
        from .values import FuncRef
        if isinstance(v, FuncRef) and v.kind == "builtin":
            return {"int": "int", "float": "real", "bool": "bool"}.get(v.target)
        return None

    def as_arr(self, v, kind=None):
        if isinstance(v, Arr):
            return v
        if isinstance(v, Lst) and v.items is not None:
            items = list(v.items)
            if items and isinstance(items[0], (tuple, Lst, Arr)):
                raise Unsupported("np.array of nested sequence")
            ks = [kind_of(x) for x in items] or ["real"]
            k = ks[0]
            for k2 in ks[1:]:
                k = join_kind(k, k2)
            from .values import _select
            return Arr((len(items),), (lambda i: items[i] if is_concrete(i) else _select(items, i)), kind or k, own=True)
        if isinstance(v, Lst):
            k = v.elem if isinstance(v.elem, str) else None
            if k is None:
                raise Unsupported("np.array of a list with unknown element type")
            return Arr((v.length,), v.get, kind or k, own=True)
        if isinstance(v, tuple):
            return self.as_arr(Lst.of(list(v)), kind)
        if is_numv(v):
            raise Unsupported("0-d array")
        raise Unsupported(f"cannot convert {v!r} to array")

    def np_call(self, st, name, args, kw, node):
        m = getattr(self, "np_" + name.replace(".", "_"), None)
        if m is None:
            raise Unsupported(f"numpy function np.{name}")
        return m(st, args, kw, node)

    # ---------------------------------------------------------------- constructors
    def _shape_arg(self, v):
        if isinstance(v, tuple):
            return tuple(v)
        if isinstance(v, Lst) and v.items is not None:
            return tuple(v.items)
        if is_intv(v):
            return (v,)
        raise Unsupported("shape argument")

    def np_zeros(self, st, args, kw, node):
        shape = self._shape_arg(args[0])
        k = self.dtype_kind(kw.get("dtype", args[1] if len(args) > 1 else None)) or "real"
        for d in shape:
            self.oblige(st, num_cmp(">=", d, 0), "lib", "np.zeros: non-negative dimension", node)
        zero = {"real": Fraction(0), "int": 0, "bool": False}[k]
        return Arr(shape, lambda *i: zero, k, own=True)

    def np_ones(self, st, args, kw, node):
        shape = self._shape_arg(args[0])
        return Arr(shape, lambda *i: Fraction(1), "real", own=True)

    def np_zeros_like(self, st, args, kw, node):
        a = args[0]
        zero = {"real": Fraction(0), "int": 0, "bool": False}[a.kind]
        return Arr(a.shape, lambda *i: zero, a.kind, own=True)

    def np_full(self, st, args, kw, node):
        shape = self._shape_arg(args[0])
        v = args[1]
        for d in shape:
            self.oblige(st, num_cmp(">=", d, 0), "lib", "np.full: non-negative dimension", node)
        return Arr(shape, lambda *i: v, kind_of(v), own=True)

    def np_arange(self, st, args, kw, node):
        if len(args) == 1:
            lo, hi = 0, args[0]
        elif len(args) == 2:
            lo, hi = args
        else:
            raise Unsupported("np.arange with a step")
        if not (is_intv(lo) and is_intv(hi)):
            raise Unsupported("np.arange on reals")
        n = num_max(num_sub(hi, lo), 0)
        return Arr((n,), lambda i: num_add(lo, i), "int", own=True, affine=(lo,))

    def np_array(self, st, args, kw, node):
        k = self.dtype_kind(kw.get("dtype", args[1] if len(args) > 1 else None))
        v = args[0]
        if isinstance(v, Arr):
            return v.with_(own=True, view_of=None, kind=k or v.kind) if (k or v.kind) == v.kind else self._astype(v, k)
        if isinstance(v, Lst) and v.items is not None and len(v.items) == 0:
            return Arr((0,), lambda i: 0, k or "real", own=True)
        a = self.as_arr(v, None)
        return self._astype(a, k) if k and k != a.kind else a

    def _astype(self, a, k):
        if k == "int" and a.kind == "real":
            raise Unsupported("real -> int array cast")
        return Arr(a.shape, lambda *i: cast(a.get(*i), k), k, own=True, affine=a.affine)

    def np_asarray(self, st, args, kw, node):
        v = args[0]
        if isinstance(v, Arr):
            return v
        return self.np_array(st, args, kw, node)

    def np_repeat(self, st, args, kw, node):
        v, n = args[0], args[1]
        if isinstance(v, Opaque) and v.tag == "float" and v.payload != v.payload:      # np.nan
            self.oblige(st, num_cmp(">=", n, 0), "lib", "np.repeat: non-negative count", node)
            # a float array that only ever holds nan or integers is modelled with Int elements + nan mask (avoids IsInt reasoning)
            return Arr((n,), lambda i: 0, "int", own=True, nanmask=lambda i: True)
        if isinstance(v, Arr):
            if v.rank == 1 and isinstance(v.shape[0], int) and v.shape[0] == 1:
                e, k = v.get(0), v.kind
            else:
                raise Unsupported("np.repeat of a general array")
        else:
            e, k = v, kind_of(v)
        self.oblige(st, num_cmp(">=", n, 0), "lib", "np.repeat: non-negative count", node)
        return Arr((n,), lambda i: e, k, own=True)

    def np_column_stack(self, st, args, kw, node):
        cols = args[0]
        cols = list(cols) if isinstance(cols, tuple) else list(cols.items)
        cols = [self.as_arr(c) for c in cols]
        if any(c.rank != 1 for c in cols):
            raise Unsupported("column_stack of non-1-D arrays")
        n = cols[0].shape[0]
        for c in cols[1:]:
            if c.shape[0] is not n:
                self.oblige(st, num_cmp("==", c.shape[0], n), "lib", "column_stack: equal lengths", node)
        k = cols[0].kind
        for c in cols[1:]:
            k = join_kind(k, c.kind)
        from .values import _select

        def get(i, j):
            if is_concrete(j):
                return cast(cols[j].get(i), k)
            return _select([cast(c.get(i), k) for c in cols], j)

        return Arr((n, len(cols)), get, k, own=True)

    def np_stack(self, st, args, kw, node):
        axis = kw.get("axis", args[1] if len(args) > 1 else 0)
        if is_concrete(axis) and axis == 1:
            return self.np_column_stack(st, [args[0]], {}, node)       # np.stack of 1-D arrays along axis 1 == np.column_stack
        raise Unsupported("np.stack along this axis")

    def np_empty(self, st, args, kw, node):
        shape = self._shape_arg(args[0])
        k = self.dtype_kind(kw.get("dtype", args[1] if len(args) > 1 else None)) or "real"
        for d in shape:
            self.oblige(st, num_cmp(">=", d, 0), "lib", "np.empty: non-negative dimension", node)
        return sym_array("empty", shape, k, own=True)       # uninitialised: arbitrary contents

    def np_flatnonzero(self, st, args, kw, node):
        m = self.as_arr(args[0])
        if m.rank != 1:
            raise Unsupported("flatnonzero of a non-1-D array")
        if m.kind != "bool":
            m = Arr(m.shape, lambda i: num_cmp("!=", m.get(i), 0), "bool")
        n = m.shape[0]
        return self.mask_gather(st, Arr((n,), lambda i: i, "int"), m, node)     # the positions where the mask holds, in order

    def np_take(self, st, args, kw, node):
        a, idx = self.as_arr(args[0]), args[1]
        axis = kw.get("axis", args[2] if len(args) > 2 else None)
        if a.rank == 2 and is_concrete(axis) and axis == 1:
            return self.index_arr(st, a, (Slc(), idx), node)
        if a.rank == 1 and (axis is None or axis is NONE or (is_concrete(axis) and axis == 0)):
            return self.index_arr(st, a, idx, node)
        raise Unsupported("np.take with this axis")

    def np_concatenate(self, st, args, kw, node):
        parts = args[0]
        parts = list(parts) if isinstance(parts, tuple) else list(parts.items)
        parts = [self.as_arr(p) for p in parts]
        if len(parts) != 2:
            raise Unsupported("concatenate of != 2 arrays")
        a, b = parts
        if a.rank != b.rank:
            raise Unsupported("concatenate ranks differ")
        k = join_kind(a.kind, b.kind)
        la = a.shape[0]
        for d in range(1, a.rank):
            if a.shape[d] is not b.shape[d]:
                self.oblige(st, num_cmp("==", a.shape[d], b.shape[d]), "lib", "concatenate: trailing dims agree", node)

        def get(*idx):
            i = idx[0]
            return mk_ite(num_cmp("<", i, la), cast(a.get(*idx), k), cast(b.get(num_sub(i, la), *idx[1:]), k))

        return Arr((num_add(la, b.shape[0]),) + tuple(a.shape[1:]), get, k, own=True)

    # ---------------------------------------------------------------- reductions
    def _all_any(self, st, a, is_all, node):
        if isinstance(a, Lst):
            if a.items is not None:
                return (mk_and if is_all else mk_or)(*a.items)
            a = Arr((a.length,), a.get, "bool")
        if not isinstance(a, Arr):
            return a
        if a.kind != "bool":
            a = Arr(a.shape, lambda *i: num_cmp("!=", a.get(*i), 0), "bool")
        if all(isinstance(d, int) for d in a.shape) and self._numel(a) <= 8:
            import itertools
            elems = [a.get(*idx) for idx in itertools.product(*[range(d) for d in a.shape])]
            return (mk_and if is_all else mk_or)(*elems)
        b = z3.Bool(fresh_name("all" if is_all else "any"))
        ivs = [fresh_int("q") for _ in a.shape]
        guard = mk_and(*[mk_and(num_cmp("<=", 0, i), num_cmp("<", i, d)) for i, d in zip(ivs, a.shape)])
        elem = a.get(*ivs)
        wit = [fresh_int("w") for _ in a.shape]
        wguard = mk_and(*[mk_and(num_cmp("<=", 0, i), num_cmp("<", i, d)) for i, d in zip(wit, a.shape)])
        welem = a.get(*wit)
        if is_all:
            st.assume(z3.Implies(b, forall(ivs, mk_implies(guard, elem))))
            st.assume(z3.Implies(z3.Not(b), mk_and(wguard, mk_not(welem))))
        else:
            st.assume(z3.Implies(z3.Not(b), forall(ivs, mk_implies(guard, mk_not(elem)))))
            st.assume(z3.Implies(b, mk_and(wguard, welem)))
        return b

    def _numel(self, a):
        n = 1
        for d in a.shape:
            n *= d
        return n

    def np_all(self, st, args, kw, node):
        return self._all_any(st, args[0], True, node)

    def np_any(self, st, args, kw, node):
        a = args[0]
        axis = kw.get("axis", args[1] if len(args) > 1 else None)
        if not nil(axis):
            raise Unsupported("np.any with axis")
        return self._all_any(st, a, False, node)

    def np_sum(self, st, args, kw, node):
        a = args[0]
        axis = kw.get("axis", args[1] if len(args) > 1 else None)
        if isinstance(a, Lst):
            a = self.as_arr(a)
        if not isinstance(a, Arr):
            return a
        if nil(axis):
            if all(isinstance(d, int) for d in a.shape) and self._numel(a) <= 8:
                import itertools
                tot = 0
                for idx in itertools.product(*[range(d) for d in a.shape]):
                    tot = num_add(tot, a.get(*idx))
                return tot
            if a.rank == 1:
                a = self.materialise(st, a, "sumarg")
                return self.vecsum(st, a)
            raise Unsupported("total sum of a 2-D symbolic array")
        if a.rank == 2 and is_concrete(axis) and axis == 1:
            if isinstance(a.shape[1], int) and a.shape[1] <= 6:
                p = a.shape[1]

                def get(i):
                    tot = 0
                    for j in range(p):
                        tot = num_add(tot, a.get(i, j))
                    return tot

                return Arr((a.shape[0],), get, a.kind, own=True)
            a = self.materialise(st, a, "sumarg")
            f = rowsum_fn(a)
            self.note_assumption("np.sum(A, axis=1)[i] is the uninterpreted row sum ROWSUM_A(i) (sum over a symbolic number of columns)")
            return Arr((a.shape[0],), lambda i: f(to_z3(i)), a.kind, own=True)
        raise Unsupported("np.sum with this axis")

    def vecsum(self, st, a):
        """Sum of a 1-D symbol-backed array via the VSUM spec function (prefix-sum recursion as quantified definition)."""
        from .theory_core import vsum_of
        return vsum_of(self, st, a)(to_z3(a.shape[0]))

    def _argext(self, st, a, is_max, node, what):
        if isinstance(a, Lst):
            a = self.as_arr(a)
        if a.rank != 1:
            raise Unsupported(f"{what} on a 2-D array")
        n = a.shape[0]
        self.oblige(st, num_cmp(">=", n, 1), "lib", f"{what}: non-empty array", node)
        r = z3.Int(fresh_name("arg"))
        q = fresh_int("q")
        cmpop = ">=" if is_max else "<="
        st.assume(mk_and(r >= 0, num_cmp("<", r, n)))
        ar = a.get(r)
        if is_concrete(n) and n <= 8:
            # small concrete length: ground instances instead of quantified facts
            strict0 = ">" if is_max else "<"
            for qi in range(n):
                st.assume(num_cmp(cmpop, ar, a.get(qi)))
                st.assume(mk_implies(num_cmp("<", qi, r), num_cmp(strict0, ar, a.get(qi))))
            self.note_assumption("numpy: argmax/argmin return the first extremal position of a non-empty array")
            return r
        st.assume(forall([q], mk_implies(mk_and(q >= 0, num_cmp("<", q, n)), num_cmp(cmpop, ar, a.get(q)))))
        strict = ">" if is_max else "<"
        st.assume(forall([q], mk_implies(mk_and(q >= 0, q < r), num_cmp(strict, ar, a.get(q)))))
        so = getattr(a, "slice_of", None)
        if so is not None:
            # same facts phrased over the positions of the sliced array, so that they match terms base[v]
            base, off = so
            v = fresh_int("v")
            st.assume(forall([v], mk_implies(mk_and(num_cmp("<=", off, v), num_cmp("<", v, num_add(off, n))), num_cmp(cmpop, ar, base.get(v)))))
            st.assume(forall([v], mk_implies(mk_and(num_cmp("<=", off, v), num_cmp("<", v, num_add(off, r))), num_cmp(strict, ar, base.get(v)))))
        self.note_assumption("numpy: argmax/argmin return the first extremal position of a non-empty array")
        return r

    def np_argmax(self, st, args, kw, node):
        return self._argext(st, args[0], True, node, "np.argmax")

    def np_argmin(self, st, args, kw, node):
        return self._argext(st, args[0], False, node, "np.argmin")

    def np_min(self, st, args, kw, node):
        if kw or len(args) != 1:
            raise Unsupported("np.min with axis / keywords")
        a = self.as_arr(args[0]) if isinstance(args[0], Lst) else args[0]
        return a.get(self._argext(st, a, False, node, "np.min"))

    def np_max(self, st, args, kw, node):
        if kw or len(args) != 1:
            raise Unsupported("np.max with axis / keywords")
        a = self.as_arr(args[0]) if isinstance(args[0], Lst) else args[0]
        return a.get(self._argext(st, a, True, node, "np.max"))

    np_amin, np_amax = np_min, np_max

    def np_isclose(self, st, args, kw, node):
        """|a - b| <= atol + rtol * |b| over the reals (finite values; numpy's defaults rtol=1e-5, atol=1e-8)."""
        from fractions import Fraction
        extra = set(kw) - {"rtol", "atol"}
        if extra or len(args) != 2:
            raise Unsupported("np.isclose with equal_nan / positional tolerances")
        def const(name, default):
            v = kw.get(name, default)
            if not isinstance(v, (int, float, Fraction)):
                raise Unsupported(f"np.isclose with symbolic {name}")
            return z3.RealVal(str(Fraction(v)))
        rtol, atol = const("rtol", Fraction(1, 100000)), const("atol", Fraction(1, 100000000))
        self.note_assumption("numpy: np.isclose(a, b) is |a - b| <= atol + rtol*|b| (finite values, real arithmetic)")
        def f(x, y):
            x, y = cast(x, "real"), cast(y, "real")
            return num_cmp("<=", num_abs(x - y), atol + rtol * num_abs(y))
        return self.elementwise(st, f, [args[0], args[1]], node, kind="bool", what="np.isclose")

    def np_quantile(self, st, args, kw, node):
        """np.quantile(a, q) of a 1-D array: the uninterpreted QUANTILE(id of a, q); obligations: non-empty array, 0 <= q <= 1."""
        from specs.theory import SPEC_FUNCS
        if kw or len(args) != 2 or not isinstance(args[0], Arr) or args[0].rank != 1:
            raise Unsupported("np.quantile with axis / keywords / non-1-D input")
        a, q = args
        self.oblige(st, num_cmp(">=", a.shape[0], 1), "lib", "np.quantile: non-empty array", node)
        self.oblige(st, mk_and(num_cmp("<=", 0, q), num_cmp("<=", q, 1)), "lib", "np.quantile: 0 <= q <= 1", node)
        self.note_assumption("numpy: np.quantile(a, q) is the uninterpreted QUANTILE(a, q), a function of the values of a and of q only "
                             "(that at most a fraction 1 - q of the entries exceed it is numpy's documented meaning, not proved)")
        return SPEC_FUNCS["QUANTILE"](self, st, SPEC_FUNCS["arrid"](self, st, a), q)

    def np_cumsum(self, st, args, kw, node):
        a = self.as_arr(args[0])
        if a.rank != 1:
            raise Unsupported("cumsum of 2-D array")
        n = a.shape[0]
        kind = "real" if a.kind == "real" else "int"
        out = sym_array("cumsum", (n,), kind, own=True)
        i = fresh_int("i")
        st.assume(mk_implies(num_cmp(">=", n, 1), num_cmp("==", out.get(0), a.get(0))))
        lhs = out.get(i + 1)
        st.assume(z3.ForAll([i], z3.Implies(z3.And(i >= 0, i + 1 < to_z3(n)),
                                            lhs == to_z3(num_add(out.get(i), a.get(i + 1)))),
                            patterns=[lhs]))
        self.note_assumption("numpy: cumsum(v)[0]==v[0], cumsum(v)[i+1]==cumsum(v)[i]+v[i+1], same length")
        return out

    def np_diff(self, st, args, kw, node):
        a = args[0]
        axis = kw.get("axis", -1)
        if "prepend" in kw or "append" in kw:
            if a.rank != 1:
                raise Unsupported("diff with prepend/append on 2-D")
            pre = kw.get("prepend")
            app = kw.get("append")
            parts = a
            if pre is not None:
                pa = pre if isinstance(pre, Arr) else Arr((1,), lambda i: pre, kind_of(pre))
                parts = self.np_concatenate(st, [(pa, parts)], {}, node)
            if app is not None:
                aa = app if isinstance(app, Arr) else Arr((1,), lambda i: app, kind_of(app))
                parts = self.np_concatenate(st, [(parts, aa)], {}, node)
            a = parts
        if a.rank == 1:
            return Arr((num_max(num_sub(a.shape[0], 1), 0),), lambda i: num_sub(a.get(num_add(i, 1)), a.get(i)), a.kind, own=True)
        if a.rank == 2 and is_concrete(axis) and axis in (1, -1):
            w = a.shape[1]
            nw = (w - 1) if isinstance(w, int) else num_max(num_sub(w, 1), 0)
            return Arr((a.shape[0], nw), lambda i, j: num_sub(a.get(i, num_add(j, 1)), a.get(i, j)), a.kind, own=True)
        raise Unsupported("np.diff axis")

    # ---------------------------------------------------------------- elementwise functions
    def _ew1(self, st, a, fn, kind=None):
        if isinstance(a, Arr):
            return Arr(a.shape, lambda *i: fn(a.get(*i)), kind or a.kind, own=True)
        return fn(a)

    def np_abs(self, st, args, kw, node):
        return self._ew1(st, args[0], num_abs)

    def np_maximum(self, st, args, kw, node):
        return self.elementwise(st, num_max, [args[0], args[1]], node, what="np.maximum")

    def np_minimum(self, st, args, kw, node):
        return self.elementwise(st, num_min, [args[0], args[1]], node, what="np.minimum")

    def np_log(self, st, args, kw, node):
        a = args[0]
        if isinstance(a, Arr):
            self.oblige(st, self.all_elems(a, lambda e, *i: num_cmp(">", e, 0)), "lib", "np.log: positive argument", node)
        else:
            self.oblige(st, num_cmp(">", a, 0), "lib", "np.log: positive argument", node)
        self.note_assumption("np.log is the uninterpreted function LOG; only explicitly named axiom instances are used")
        return self._ew1(st, a, lambda x: LOG(to_z3(to_real(x))), "real")

    def np_sqrt(self, st, args, kw, node):
        a = args[0]
        if isinstance(a, Arr):
            self.oblige(st, self.all_elems(a, lambda e, *i: num_cmp(">=", e, 0)), "lib", "np.sqrt: non-negative argument", node)
        else:
            self.oblige(st, num_cmp(">=", a, 0), "lib", "np.sqrt: non-negative argument", node)
        self.note_assumption("np.sqrt is the uninterpreted function SQRT with SQRT(x)>=0 and SQRT(x)^2==x for x>=0")

        def f(x):
            x = to_z3(to_real(x))
            r = SQRT(x)
            st.assume(z3.Implies(x >= 0, z3.And(r >= 0, r * r == x))) if not isinstance(a, Arr) else None
            return r

        if isinstance(a, Arr):
            # quantified sqrt axiom restricted to the elements of this array
            am = a
            ivs = [fresh_int("q") for _ in a.shape]
            x = to_z3(to_real(a.get(*ivs)))
            r = SQRT(x)
            guard = mk_and(*[mk_and(num_cmp("<=", 0, i), num_cmp("<", i, d)) for i, d in zip(ivs, a.shape)])
            st.assume(z3.ForAll(ivs, z3.Implies(z3.And(guard, x >= 0), z3.And(r >= 0, r * r == x)), patterns=[r]))
            return Arr(a.shape, lambda *i: SQRT(to_z3(to_real(a.get(*i)))), "real", own=True)
        return f(a)

    def np_where(self, st, args, kw, node):
        if len(args) != 3:
            raise Unsupported("np.where with one argument")
        c, a, b = args
        return self.elementwise(st, lambda x, y, z: mk_ite(x, y, z) if not is_concrete(x) else (y if x else z), [c, a, b], node,
                                kind=join_kind(self.scalar_or_arr_kind(a), self.scalar_or_arr_kind(b)), what="np.where")

    def np_isnan(self, st, args, kw, node):
        a = args[0]
        from .values import OptV
        if isinstance(a, OptV):      # nan modelled as the "none" alternative of an optional real
            return a.is_none
        if is_numv(a):
            return False
        raise Unsupported("np.isnan on arrays")

    def np_round(self, st, args, kw, node):
        a = args[0]
        if isinstance(a, Arr):
            out = sym_array("round", a.shape, "int", own=True)
            ivs = [fresh_int("q") for _ in a.shape]
            guard = mk_and(*[mk_and(num_cmp("<=", 0, i), num_cmp("<", i, d)) for i, d in zip(ivs, a.shape)])
            r = out.get(*ivs)
            x = to_z3(to_real(a.get(*ivs)))
            st.assume(z3.ForAll(ivs, z3.Implies(guard, z3.And(2 * z3.ToReal(r) >= 2 * x - 1, 2 * z3.ToReal(r) <= 2 * x + 1)), patterns=[r]))
            self.note_assumption("np.round(x) is an integer within 1/2 of x (typed Int)")
            return out
        if is_intv(a):
            return a
        r = z3.Int(fresh_name("round"))
        x = to_z3(to_real(a))
        st.assume(z3.And(2 * z3.ToReal(r) >= 2 * x - 1, 2 * z3.ToReal(r) <= 2 * x + 1))
        self.note_assumption("np.round(x) is an integer within 1/2 of x (typed Int)")
        return r

    def np_ceil(self, st, args, kw, node):
        a = args[0]
        if is_intv(a):
            return a
        r = z3.Int(fresh_name("ceil"))
        x = to_z3(to_real(a))
        st.assume(z3.And(z3.ToReal(r) >= x, z3.ToReal(r) < x + 1))
        self.note_assumption("np.ceil(x) is the integer r with x <= r < x+1 (typed Int)")
        return r

    def np_issubdtype(self, st, args, kw, node):
        d, t = args
        if isinstance(d, Opaque) and d.tag == "dtype" and isinstance(t, Opaque) and t.tag == "nptype":
            if t.payload == "integer":
                return d.payload == "int"
            if t.payload == "floating":
                return d.payload == "real"
            if t.payload in ("unsignedinteger", "signedinteger"):
                # integer arrays of the verified text are SIGNED mathematical integers; unsigned input arrays are outside the encoding
                # (what the code does with them is exercised by the bounded tier of C13)
                self.note_assumption("integer arrays are signed: np.issubdtype(dtype, np.unsignedinteger) is False for every modelled array")
                return d.payload == "int" and t.payload == "signedinteger"
        raise Unsupported("np.issubdtype on unknown dtype")

    def np_unique(self, st, args, kw, node):
        a = self.as_arr(args[0])
        if a.rank != 1:
            raise Unsupported("np.unique of 2-D")
        n = a.shape[0]
        L = z3.Int(fresh_name("ulen"))
        out = sym_array("uniq", (L,), a.kind, own=True)
        src = z3.Function(fresh_name("usrc"), z3.IntSort(), z3.IntSort())
        k, k2 = fresh_int("k"), fresh_int("k")
        st.assume(mk_and(L >= 0, L <= to_z3(n), mk_implies(num_cmp(">=", n, 1), L >= 1)))
        ok = out.get(k)
        st.assume(z3.ForAll([k], z3.Implies(z3.And(k >= 0, k < L), z3.And(src(k) >= 0, src(k) < to_z3(n), ok == a.get(src(k)))), patterns=[ok]))
        st.assume(z3.ForAll([k, k2], z3.Implies(z3.And(k >= 0, k < k2, k2 < L), out.get(k) < out.get(k2)),
                            patterns=[z3.MultiPattern(out.get(k), out.get(k2))]))
        self.note_assumption("np.unique returns the sorted distinct values, each an element of the input")
        return out

    def np_geomspace(self, st, args, kw, node):
        lo, hi, num = args[0], args[1], args[2]
        n = num_max(num, 0)
        out = sym_array("geom", (n,), "real", own=True)
        k = fresh_int("k")
        lo_r, hi_r = to_z3(to_real(lo)), to_z3(to_real(hi))
        self.oblige(st, mk_and(num_cmp(">", lo, 0), num_cmp(">", hi, 0)), "lib", "np.geomspace: positive end points", node)
        ok = out.get(k)
        st.assume(z3.ForAll([k], z3.Implies(z3.And(k >= 0, k < to_z3(n)),
                                            z3.And(ok >= z3.If(lo_r <= hi_r, lo_r, hi_r), ok <= z3.If(lo_r <= hi_r, hi_r, lo_r))), patterns=[ok]))
        st.assume(z3.Implies(to_z3(n) >= 1, out.get(0) == lo_r))
        self.note_assumption("np.geomspace(a,b,k): length max(k,0), all elements between a and b, first element a")
        return out

    # ---------------------------------------------------------------- ndarray methods / attributes
    def arr_attr(self, st, a: Arr, name, node):
        if name == "shape":
            return tuple(a.shape)
        if name == "ndim":
            return a.rank
        if name == "size":
            n = 1
            for d in a.shape:
                n = num_mul(n, d)
            return n
        if name == "dtype":
            return Opaque("dtype", a.kind)
        if name in ("values",):
            return a          # a validated frame is modelled by its 2-D values
        if name == "index":
            return Opaque("index", a)
        if name == "T":
            if a.rank == 2:
                return Arr((a.shape[1], a.shape[0]), lambda i, j: a.get(j, i), a.kind, view_of=a)
            return a
        raise Unsupported(f"ndarray attribute {name}")

    def arr_method(self, st, a: Arr, name, args, kw, node):
        if name == "copy":
            return a.with_(own=True, view_of=None)
        if name == "reshape":
            shp = tuple(args[0]) if len(args) == 1 and isinstance(args[0], tuple) else tuple(args)
            if a.rank == 1 and len(shp) == 2 and is_concrete(shp[0]) and shp[0] == -1 and is_concrete(shp[1]) and shp[1] == 1:
                return Arr((a.shape[0], 1), lambda i, j: a.get(i), a.kind, own=a.own, view_of=None if a.own else a)
            if a.rank == 1 and len(shp) == 2 and is_concrete(shp[0]) and shp[0] == 1 and is_concrete(shp[1]) and shp[1] == -1:
                return Arr((1, a.shape[0]), lambda i, j: a.get(j), a.kind, own=a.own, view_of=None if a.own else a)
            if len(shp) == 1 and is_concrete(shp[0]) and shp[0] == -1:
                if a.rank == 1:
                    return a
                if a.rank == 2 and isinstance(a.shape[1], int) and a.shape[1] == 1:
                    return Arr((a.shape[0],), lambda i: a.get(i, 0), a.kind, own=a.own, view_of=None if a.own else a)
            if a.rank == 2 and len(shp) == 2:
                # reshape(p, p) of a (p, p) result (np.cov): identity when dims agree
                self.oblige(st, mk_and(num_cmp("==", shp[0], a.shape[0]), num_cmp("==", shp[1], a.shape[1])), "lib", "reshape: same shape", node)
                return a
            raise Unsupported("reshape pattern")
        if name == "sum":
            return self.np_sum(st, [a] + list(args), kw, node)
        if name == "argmax":
            return self._argext(st, a, True, node, "ndarray.argmax")
        if name == "argmin":
            return self._argext(st, a, False, node, "ndarray.argmin")
        if name == "min":
            r = self._argext(st, a, False, node, "ndarray.min")
            return a.get(r)
        if name == "max":
            r = self._argext(st, a, True, node, "ndarray.max")
            return a.get(r)
        if name == "argsort":
            return self.argsort(st, a, node)
        if name == "astype":
            return self._astype(a, self.dtype_kind(args[0]))
        if name == "all":
            return self._all_any(st, a, True, node)
        if name == "any":
            return self._all_any(st, a, False, node)
        raise Unsupported(f"ndarray method {name}")

    def argsort(self, st, a: Arr, node):
        if a.rank != 1:
            raise Unsupported("argsort of 2-D")
        n = a.shape[0]
        out = sym_array("argsort", (n,), "int", own=True)
        inv = z3.Function(fresh_name("asinv"), z3.IntSort(), z3.IntSort())
        k, k2 = fresh_int("k"), fresh_int("k")
        ok = out.get(k)
        st.assume(z3.ForAll([k], z3.Implies(z3.And(k >= 0, k < to_z3(n)), z3.And(ok >= 0, ok < to_z3(n), inv(ok) == k)), patterns=[ok]))
        st.assume(z3.ForAll([k], z3.Implies(z3.And(k >= 0, k < to_z3(n)), z3.And(inv(k) >= 0, inv(k) < to_z3(n), out.get(inv(k)) == k)), patterns=[inv(k)]))
        st.assume(z3.ForAll([k, k2], z3.Implies(z3.And(k >= 0, k <= k2, k2 < to_z3(n)), to_z3(a.get(out.get(k))) <= to_z3(a.get(out.get(k2)))),
                            patterns=[z3.MultiPattern(out.get(k), out.get(k2))]))
        out.perm_inv = inv
        self.note_assumption("numpy: argsort returns a permutation of 0..n-1 that sorts ascending (tie order not assumed)")
        return out
