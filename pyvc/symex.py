"""Forward symbolic executor for the python subset of DESIGN 3 -> verification conditions."""
from __future__ import annotations

import ast
from fractions import Fraction

import z3

from .contracts import Contract, contracts_for
from .extract import ClassInfo, FuncInfo, Repo, strip_docstring
from .npfuncs import NumpyFuncs
from .npmodel import PI_AXIOM, NumpyModel
from .state import Obligation, State, fresh_int
from .state import exists as mk_exists
from .state import forall as mk_forall
from .symex_expr import ExprEval
from .types import TypeSpec, parse_type, static_matches
from .values import (NONE, Arr, EngineError, FuncRef, Lst, ModRef, ObjRef, Opaque, OptV, Unsupported, cast, fresh_name,
                     fresh_scalar, is_boolv, is_concrete, is_intv, is_numv, is_realv, is_z3, kind_of, mk_and,
                     mk_implies, mk_ite, mk_not, mk_or, num_abs, num_add, num_cmp, num_max, num_min, num_mul, num_sub,
                     sym_array, sym_list, to_real, to_z3, zbool)

_EXPR_CACHE: dict[str, ast.AST] = {}


def parse_expr(s: str) -> ast.AST:
    if s not in _EXPR_CACHE:
        tree = ast.parse(s.strip(), mode="eval").body
        for n in ast.walk(tree):
            n._spec = True
        _EXPR_CACHE[s] = tree
    return _EXPR_CACHE[s]


_MISSING = object()


def st_heap_get(eng, o, fld):
    st = getattr(eng, "_cur_state", None)
    if st is None:
        return _MISSING
    return st.heap.get(o.oid, {}).get(fld, _MISSING)


class LemmaInst:
    """Instance of a proved lemma: premises become side obligations, the conclusion a hypothesis."""

    def __init__(self, name, premises, conclusion):
        self.name, self.premises, self.conclusion = name, premises, conclusion


class Raise:
    def __init__(self, exc, node=None):
        self.exc = exc
        self.node = node


class Engine(ExprEval, NumpyModel, NumpyFuncs):
    def __init__(self, repo: Repo, spec_funcs=None, externals=None, spec_consts=None):
        self.repo = repo
        self.spec_consts = dict(spec_consts or {})
        self.spec_funcs = dict(spec_funcs or {})
        self.spec_names = set(self.spec_funcs) | {"forall", "exists", "implies", "iff", "ite", "old", "shape", "rowsum",
                                                  "is_none", "typeis", "lam", "isnan_", "fresh", "using", "have", "payload", "kindis", "optval", "isint_", "to_int", "gather_pos", "gather_src", "sort_inv", "sort_perm"}
        self.externals = dict(externals or {})
        self.obligations: list[Obligation] = []
        self.assumptions: set[str] = set()
        self.inlined: set[str] = set()
        self.used_contracts: set[str] = set()
        self.used_lemmas: set[str] = set()
        self.cur: Contract | None = None
        self.cur_fi: FuncInfo | None = None
        self._oid_counts = {}
        self._next_oid = 0
        self.loop_ordinals = {}
        self.depth = 0
        self.max_paths = 400

    # ------------------------------------------------------------------ bookkeeping
    def note_assumption(self, text):
        self.assumptions.add(text)

    def cur_module(self, st):
        fi = st.env.get("$func")
        return fi.module if fi is not None else (self.cur_fi.module if self.cur_fi else None)

    def oblige(self, st, goal, kind, label, node=None, extra_hyps=()):
        if goal is True and kind not in ("raises", "post"):
            return
        if kind == "lib" and node is not None and (getattr(node, "_spec", False) or getattr(node, "_ghost", False)):
            return      # well-definedness of specification expressions is not a program obligation
        line = getattr(node, "lineno", 0) or 0
        rel = line - self.cur_fi.lineno if (self.cur_fi and line and st.env.get("$func") is self.cur_fi) else None
        where = f"@L+{rel}" if rel is not None else (f"@{st.env['$func'].qualname}:L{line}" if st.env.get("$func") is not None and line else "")
        oid = f"{self.cur.ident}#{kind}[{label}]{where}"
        n = self._oid_counts.get(oid, 0)
        self._oid_counts[oid] = n + 1
        full = oid if n == 0 else f"{oid}/p{n}"
        g = z3.BoolVal(False) if goal is False else (z3.BoolVal(True) if goal is True else zbool(goal))
        props = tuple(self.cur.clause_props.get(label, self.cur.props))
        self.obligations.append(Obligation(full, kind, list(st.pc) + [zbool(h) for h in extra_hyps if h is not True], g,
                                           func=self.cur.ident, target=self.cur.target, line=line, props=props))

    # ------------------------------------------------------------------ objects
    def alloc(self, st, ci: ClassInfo, abstract=False):
        self._next_oid += 1
        o = ObjRef(self._next_oid, ci)
        o.abstract = abstract
        st.heap[o.oid] = {}
        return o

    def obj_getattr(self, st, o: ObjRef, name, node):
        fields = st.heap[o.oid]
        if name in fields:
            if (o.oid, name) not in st.written:
                st.read_before_write.add((o.oid, name))
            return fields[name]
        fi = self.repo.find_method(o.cls, name)
        if fi is not None:
            if fi.is_property:
                if getattr(o, "abstract", False):
                    raise Unsupported(f"property {name} of interface-typed object without a declared value")
                return self.call_merged(st, fi, [o], {}, node)
            if fi.is_static:
                if getattr(o, "abstract", False):
                    return FuncRef("static_on_iface", fi, self_obj=o, name=f"{o.cls.name}.{name}")
                return FuncRef("func", fi, name=f"{o.cls.name}.{name}")
            return FuncRef("method", fi, self_obj=o, name=f"{o.cls.name}.{name}")
        ca = self.repo.find_class_attr(o.cls, name)
        if ca is not None:
            return self.eval(st, ca[0])
        ext = self.externals.get(("attr", name))
        if ext is not None:
            return ext(self, st, o, node)
        if name in self.externals.get("methods", {}):
            return FuncRef("extmethod", name, self_obj=o, name=f"{o.cls.name}.{name}")
        where = self.repo.attr_assigned_in_class(o.cls, name)
        if where is not None:
            # the class does set this attribute somewhere: the contract's object model is incomplete, nothing is known about the code
            raise Unsupported(f"attribute {o.cls.name}.{name} (assigned in {where}) is not part of the contract's object model")
        raise Unsupported(f"attribute {o.cls.name}.{name} is not defined on this path (AttributeError in python)")

    def obj_setattr(self, st, o: ObjRef, name, val, node):
        st.heap[o.oid][name] = val
        st.written.add((o.oid, name))

    # ------------------------------------------------------------------ calls
    def e_Call(self, st, node):
        fn_node = node.func
        # contract-language specials that need the AST
        if isinstance(fn_node, ast.Name) and fn_node.id in ("forall", "exists", "old", "lam") and fn_node.id not in st.env:
            return getattr(self, "spec_" + fn_node.id)(st, node)
        fr = self.eval(st, fn_node)
        args, kw = self.eval_args(st, node)
        return self.call_value(st, fr, args, kw, node)

    def eval_args(self, st, node):
        args = []
        for a in node.args:
            if isinstance(a, ast.Starred):
                v = self.eval(st, a.value)
                if isinstance(v, tuple):
                    args.extend(v)
                elif isinstance(v, Lst) and v.items is not None:
                    args.extend(v.items)
                else:
                    raise Unsupported("star-args of symbolic length")
            else:
                args.append(self.eval(st, a))
        kw = {}
        for k in node.keywords:
            if k.arg is None:
                raise Unsupported("**kwargs call")
            kw[k.arg] = self.eval(st, k.value)
        return args, kw

    def is_heavy(self, fr):
        return isinstance(fr, FuncRef) and fr.kind in ("func", "method", "method_exact", "class", "external", "unbound", "extmethod", "static_on_iface")

    def call_value(self, st, fr, args, kw, node):
        if not isinstance(fr, FuncRef):
            if isinstance(fr, Opaque) and fr.tag in ("fn", "attr"):
                raise Unsupported("call of an opaque callable")
            raise Unsupported(f"call of non-callable {fr!r} (TypeError in python)")
        k = fr.kind
        if k == "hasnan":           # frame.isna().any(axis=None): the uninterpreted "contains a missing value" of the held values
            self.note_assumption("pandas: frame.isna().any(axis=None) is true iff the held values contain a missing value (HASNAN)")
            return self.call_spec(st, "HASNAN", [fr.target], {}, node)
        if k == "lambda0":          # a nullary accessor whose value is already known
            v = fr.target
            if isinstance(v, Arr) and fr.name and fr.name.endswith(("to_list", "tolist")):
                return Lst(v.shape[0], lambda i, v=v: v.get(i), v.kind)
            return v
        if k == "spec":
            return self.call_spec(st, fr.target, args, kw, node)
        if k == "builtin":
            return self.call_builtin(st, fr.target, args, kw, node)
        if k == "np":
            return self.np_call(st, fr.target, args, kw, node)
        if k == "arrmethod":
            return self.arr_method(st, fr.self_obj, fr.target, args, kw, node)
        if k == "listmethod":
            return self.list_method_pure(st, fr.self_obj, fr.target, args, kw, node)
        if k == "lambda":
            return self.call_lambda(st, fr, args)
        # heavy call reached outside statement-level hoisting: run and merge
        outs = self.heavy_call(st, fr, args, kw, node)
        return self.merge_outcomes(st, outs, node)

    def merge_outcomes(self, st, outs, node):
        """Merge forked outcomes of a call evaluated in expression position (no raising path may be feasible)."""
        vals = []
        for s2, out in outs:
            if isinstance(out, Raise):
                self.oblige(s2, False, "unexpected-raise", f"{out.exc} in expression position", node)
                continue
            vals.append((s2, out))
        if not vals:
            raise Unsupported("call never returns normally")
        if len(vals) == 1:
            s2, v = vals[0]
            self.adopt(st, s2)
            return v
        # merge: value = ite over the path conditions added by each branch
        base = len(st.pc)
        res = None
        conds = []
        for s2, v in vals:
            conds.append(mk_and(*s2.pc[base:]))
        for (s2, v), c in zip(reversed(vals), reversed(conds)):
            res = v if res is None else self.merge_values(c, v, res)
        st.assume(mk_or(*conds))
        # heap effects in expression-position calls are not merged: require none
        return res

    def adopt(self, st, s2):
        st.env, st.heap, st.pc, st.ghost_fns = s2.env, s2.heap, s2.pc, s2.ghost_fns
        st.written, st.read_before_write = s2.written, s2.read_before_write

    def call_merged(self, st, fi: FuncInfo, args, kw, node):
        """Inline a small pure function (properties) and merge its return paths into one value."""
        outs = self.inline_call(st.fork(), fi, args, kw, node)
        base = len(st.pc)
        vals = []
        for s2, out in outs:
            if isinstance(out, Raise):
                self.oblige(s2, False, "unexpected-raise", f"{out.exc} raised by {fi.qualname}", node)
                continue
            vals.append((mk_and(*s2.pc[base:]), out, s2))
        if not vals:
            raise Unsupported(f"{fi.qualname} never returns")
        if len(vals) == 1:
            for f in vals[0][2].pc[base:]:
                st.pc.append(f)
            return vals[0][1]
        res = vals[-1][1]
        for c, v, _ in reversed(vals[:-1]):
            res = self.merge_values(c, v, res)
        return res

    def find_contract(self, fi: FuncInfo, bound: dict, self_obj=None):
        """Pick the contract variant that statically matches the actual arguments (None if there is none)."""
        cands = list(contracts_for(fi.key))
        live = [c for c in cands if not c.inline]
        if live and not any({p for p in c.params if "." not in p} <= set(bound) for c in live):
            # every contract of the callee names a parameter the function no longer has: its signature changed, the contracts (and the
            # ghost hints they carry) say nothing about this code; inlining the body instead would silently drop those hints
            raise Unsupported(f"the contracts of {fi.qualname} do not fit its parameter list {sorted(bound)} (signature changed)")
        for exact in (True, False):
            best, best_score = None, -1
            for c in cands:
                score = 0
                if c.inline:
                    continue
                if c.self_class and self_obj is not None and not self.repo.is_subclass(self_obj.cls, c.self_class):
                    continue
                if c.self_class and self_obj is not None and c.self_class != self_obj.cls.name and not getattr(self_obj, "abstract", False):
                    continue
                ok = True
                for pname, tstr in c.params.items():
                    if "." in pname:
                        continue
                    if pname not in bound:
                        ok = False
                        break
                    if not static_matches(parse_type(tstr), bound[pname], self.repo, exact):
                        ok = False
                        break
                if ok and self_obj is not None:
                    # dotted fields must match statically too (hyper-parameter variants)
                    for pname, tstr in c.params.items():
                        if "." not in pname:
                            continue
                        base, _, fld = pname.rpartition(".")
                        if base != "self":
                            continue
                        cur = st_heap_get(self, self_obj, fld)
                        ts = parse_type(tstr)
                        if cur is _MISSING:
                            if fld.startswith("ghost_") and ts.const is not None:
                                ok = False      # a ghost trait the variant is keyed on must be declared by the caller
                                break
                            continue
                        if not static_matches(ts, cur, self.repo, exact):
                            ok = False
                            break
                        if ts.const is not None:
                            score += 1
                if ok and score > best_score:
                    best, best_score = c, score
            if best is not None:
                return best
        return None

    def bind_args(self, fi: FuncInfo, args, kw, st, self_val=None):
        params = fi.params
        names = [p for p, _ in params]
        bound = {}
        pos = list(args)
        if self_val is not None:
            pos = [self_val] + pos
        if len(pos) > len(names):
            raise Unsupported(f"too many positional arguments for {fi.qualname}")
        for n, v in zip(names, pos):
            bound[n] = v
        for k, v in kw.items():
            if k not in names:
                raise Unsupported(f"unexpected keyword {k} for {fi.qualname}")
            if k in bound:
                raise Unsupported(f"duplicate argument {k}")
            bound[k] = v
        for n, d in params:
            if n not in bound:
                if d is None:
                    raise Unsupported(f"missing argument {n} for {fi.qualname} (TypeError in python)")
                saved = st.env
                st.env = {"$func": fi}
                try:
                    bound[n] = self.eval(st, d)
                finally:
                    st.env = saved
        return bound

    def heavy_call(self, st, fr: FuncRef, args, kw, node):
        """Returns list of (state, value | Raise)."""
        k = fr.kind
        if k == "external" or k == "extmethod":
            return self.call_external(st, fr, args, kw, node)
        if k == "class":
            return self.construct(st, fr.target, args, kw, node)
        fi: FuncInfo = fr.target
        if k == "static_on_iface":
            # a static method reached through an interface-typed object: an interface contract (with `self`) takes precedence
            bound = self.bind_args(fi, args, kw, st, None)
            bound2 = dict(bound)
            bound2["self"] = fr.self_obj
            self._cur_state = st
            c = self.find_contract(fi, bound2, fr.self_obj)
            if c is not None:
                return self.apply_contract(st, c, fi, bound2, node)
            self.inlined.add(fi.key)
            return self.inline_bound(st, fi, bound, node)
        self_val = fr.self_obj if k in ("method", "method_exact") else None
        if k == "unbound" and fr.self_obj is not None:
            self_val = fr.self_obj   # classmethod: cls
        # dynamic dispatch on the static class of self
        if k == "method" and isinstance(self_val, ObjRef):
            real = self.repo.find_method(self_val.cls, fi.node.name)
            if real is not None:
                fi = real
        bound = self.bind_args(fi, args, kw, st, self_val)
        self._cur_state = st
        c = self.find_contract(fi, bound, self_val if isinstance(self_val, ObjRef) else None)
        if c is not None and not (self.cur is c):
            return self.apply_contract(st, c, fi, bound, node)
        if isinstance(self_val, ObjRef) and getattr(self_val, "abstract", False):
            raise Unsupported(f"call of {fi.qualname} on an interface-typed object without an interface contract")
        if any(d not in ("njit", "jit", "staticmethod", "classmethod", "property") for d in fi.decorators):
            raise Unsupported(f"function {fi.qualname} has an unknown decorator")
        self.inlined.add(fi.key)
        return self.inline_bound(st, fi, bound, node)

    def inline_call(self, st, fi, args, kw, node):
        self_val = None
        bound = self.bind_args(fi, args, kw, st, self_val)
        return self.inline_bound(st, fi, bound, node)

    def inline_bound(self, st, fi: FuncInfo, bound, node):
        if self.depth > 12:
            raise Unsupported("inlining depth exceeded (recursion?)")
        caller_env = st.env
        st.env = dict(bound)
        st.env["$func"] = fi
        self.depth += 1
        try:
            outs = self.exec_block(st, strip_docstring(fi.node.body))
        finally:
            self.depth -= 1
        res = []
        for s2, out in outs:
            s2.env = dict(caller_env)
            if out is None:
                res.append((s2, NONE))
            elif out[0] == "return":
                res.append((s2, out[1]))
            elif out[0] == "raise":
                res.append((s2, Raise(out[1], out[2] if len(out) > 2 else None)))
            else:
                raise Unsupported("break/continue escaping a function")
        return res

    def construct(self, st, ci: ClassInfo, args, kw, node):
        exc = {"ValueError", "RuntimeError", "TypeError", "NotImplementedError", "IndexError"}
        o = self.alloc(st, ci)
        init = self.repo.find_method(ci, "__init__")
        if init is None:
            return [(st, o)]
        fr = FuncRef("method", init, self_obj=o, name=f"{ci.name}.__init__")
        outs = self.heavy_call(st, fr, args, kw, node)
        return [(s2, out if isinstance(out, Raise) else o) for s2, out in outs]

    def call_external(self, st, fr, args, kw, node):
        name = fr.target
        h = self.externals.get(name)
        if h is None and fr.kind == "extmethod":
            h = self.externals.get("methods", {}).get(name)
            if h is not None:
                return h(self, st, fr.self_obj, args, kw, node)
        if h is None:
            raise Unsupported(f"external call {name} has no assumed contract")
        return h(self, st, args, kw, node)

    # ------------------------------------------------------------------ builtins
    def call_builtin(self, st, name, args, kw, node):
        if name == "len":
            v = args[0]
            if isinstance(v, Arr):
                if v.rank == 0:
                    raise Unsupported("len of 0-d array")
                return v.shape[0]
            if isinstance(v, Lst):
                return v.length
            if isinstance(v, tuple):
                return len(v)
            if isinstance(v, Opaque) and v.tag in ("series", "frame") and isinstance(v.payload, (Arr, Lst)):
                self.note_assumption("pandas: len(series / frame / index) is the number of rows")
                return v.payload.shape[0] if isinstance(v.payload, Arr) else v.payload.length
            if v is NONE or isinstance(v, (bool, int, float, Fraction)) or (is_numv(v) and not isinstance(v, (Arr, Lst))):
                raise Unsupported(f"len of {v!r} (TypeError in python)")
            raise Unsupported(f"len of {v!r}: value outside the modelled subset")
        if name == "int":
            v = args[0]
            if isinstance(v, OptV) and v.nanlike:
                self.oblige(st, mk_not(v.is_none), "lib", "int(): argument is not nan", node)
                v = v.value
            if is_intv(v) or is_boolv(v):
                return v
            if is_concrete(v):
                raise Unsupported("int() of a concrete real")
            self.oblige(st, z3.IsInt(v), "lib", "int(): argument is integral (no silent truncation)", node)
            return z3.ToInt(v)
        if name == "float":
            return to_real(args[0])
        if name == "bool":
            return self.truth(st, args[0], node)
        if name in ("min", "max"):
            vals = args
            if len(args) == 1 and isinstance(args[0], (Lst, tuple)):
                vals = args[0].items if isinstance(args[0], Lst) else list(args[0])
                if vals is None:
                    raise Unsupported("min/max of symbolic list")
            f = num_min if name == "min" else num_max
            r = vals[0]
            for v in vals[1:]:
                r = f(r, v)
            return r
        if name == "abs":
            return num_abs(args[0])
        if name == "round":
            return self.np_round(st, args, kw, node)
        if name in ("any", "all"):
            return self._all_any(st, args[0], name == "all", node)
        if name == "sum":
            return self.np_sum(st, [args[0]], {}, node)
        if name == "range" or name == "prange":
            if len(args) == 1:
                return Opaque("range", (0, args[0]))
            if len(args) == 2:
                return Opaque("range", (args[0], args[1]))
            raise Unsupported("range with step")
        if name == "enumerate":
            return Opaque("enumerate", args[0])
        if name == "zip":
            return Opaque("zip", list(args))
        if name == "list":
            v = args[0] if args else Lst.of([])
            if isinstance(v, Lst):
                return v
            n, item = self.iter_protocol(st, v, node)
            if is_concrete(n):
                return Lst.of([item(i) for i in range(n)])
            return Lst(n, item, None)
        if name == "tuple":
            v = args[0]
            if isinstance(v, tuple):
                return v
            if isinstance(v, Lst) and v.items is not None:
                return tuple(v.items)
            raise Unsupported("tuple() of symbolic sequence")
        if name == "sorted":
            return self.sorted_list(st, args[0], node)
        if name == "isinstance":
            return self.isinstance_(st, args[0], args[1], node)
        if name == "callable":
            v = args[0]
            if isinstance(v, FuncRef) or (isinstance(v, Opaque) and v.tag == "fn"):
                return True
            if isinstance(v, (str, Arr, Lst, tuple)) or is_numv(v) or v is NONE:
                return False
            raise Unsupported("callable() of this value")
        if name in ("ValueError", "RuntimeError", "TypeError", "NotImplementedError", "IndexError"):
            return Opaque("exc", name)
        if name in ("str", "type"):
            return Opaque("str", "<str>")
        if name == "super":
            fi = st.env.get("$func")
            if fi is None or fi.cls is None or "self" not in st.env:
                raise Unsupported("super() outside a method")
            return Opaque("super", (st.env["self"], fi.cls))
        if name == "print":
            return NONE
        raise Unsupported(f"builtin {name}")

    def isinstance_(self, st, v, t, node):
        ts = t if isinstance(t, tuple) else (t,)
        res = False
        for one in ts:
            res = mk_or(res, self._isinstance1(st, v, one, node))
        return res

    def _isinstance1(self, st, v, t, node):
        if isinstance(t, FuncRef) and t.kind == "class":
            if isinstance(v, ObjRef):
                if self.repo.is_subclass(v.cls, t.target.name):
                    return True
                if getattr(v, "abstract", False) and self.repo.is_subclass(t.target, v.cls.name):
                    # an interface-typed object stands for ANY subclass of its static class (built-in or user-defined): membership in a
                    # proper subclass is not known statically -- one uninterpreted boolean per (object, class)
                    key = f"isinst!{v.oid}!{t.target.name}"
                    if key not in st.ghost_fns:
                        st.ghost_fns[key] = z3.Bool(fresh_name(f"isinst_{t.target.name}"))
                    return st.ghost_fns[key]
                return False
            return False
        if isinstance(t, FuncRef) and t.kind == "external":
            nm = t.target
            if nm.endswith("numbers.Number") or nm.endswith(".Number"):
                return is_numv(v)
            if nm.endswith("ndarray"):
                return isinstance(v, Arr)
            if nm in ("pandas.DataFrame", "pandas.Series"):
                return isinstance(v, Opaque) and v.tag == nm
            raise Unsupported(f"isinstance against {nm}")
        if isinstance(t, Opaque) and t.tag == "nptype" and t.payload == "ndarray":
            return isinstance(v, Arr)
        if isinstance(t, FuncRef) and t.kind == "builtin":
            nm = t.target
            if nm == "int":
                return is_intv(v) or isinstance(v, bool)
            if nm == "float":
                return is_realv(v)
            if nm == "tuple":
                return isinstance(v, tuple)
            if nm == "list":
                return isinstance(v, Lst)
            if nm == "str":
                return isinstance(v, str) or (isinstance(v, Opaque) and v.tag == "str")
        raise Unsupported(f"isinstance against {t!r}")

    def sorted_list(self, st, v, node):
        if isinstance(v, Lst) and v.items is not None and len(v.items) <= 1:
            return v
        if not isinstance(v, Lst):
            raise Unsupported("sorted() of non-list")
        n = v.length
        elem = v.elem
        if isinstance(elem, tuple) and any(isinstance(kd, str) and kd.startswith("arr:") for kd in elem[1]):
            return self.sorted_list_arr(st, v, node)
        out = sym_list("sorted", elem if elem is not None else "int", n)
        perm = z3.Function(fresh_name("sperm"), z3.IntSort(), z3.IntSort())
        inv = z3.Function(fresh_name("sinv"), z3.IntSort(), z3.IntSort())
        k, k2 = fresh_int("k"), fresh_int("k")
        nz = to_z3(n)

        def eq(a, b):
            if isinstance(a, tuple):
                return mk_and(*[num_cmp("==", x, y) for x, y in zip(a, b)])
            return num_cmp("==", a, b)

        def le(a, b):
            if isinstance(a, tuple):     # lexicographic
                r = True
                for x, y in reversed(list(zip(a, b))):
                    r = mk_or(num_cmp("<", x, y), mk_and(num_cmp("==", x, y), r))
                return r
            return num_cmp("<=", a, b)

        ok = out.get(k)
        trig = ok[0] if isinstance(ok, tuple) else ok
        st.assume(z3.ForAll([k], z3.Implies(z3.And(k >= 0, k < nz), z3.And(perm(k) >= 0, perm(k) < nz, inv(perm(k)) == k, zbool(eq(ok, v.get(perm(k)))))), patterns=[trig, perm(k)]))
        st.assume(z3.ForAll([k], z3.Implies(z3.And(k >= 0, k < nz), z3.And(inv(k) >= 0, inv(k) < nz, perm(inv(k)) == k)), patterns=[inv(k)]))
        a1, a2 = out.get(k), out.get(k2)
        t1 = a1[0] if isinstance(a1, tuple) else a1
        t2 = a2[0] if isinstance(a2, tuple) else a2
        st.assume(z3.ForAll([k, k2], z3.Implies(z3.And(k >= 0, k <= k2, k2 < nz), zbool(le(a1, a2))), patterns=[z3.MultiPattern(t1, t2)]))
        out.perm, out.perm_inv = perm, inv
        self.note_assumption("python: sorted()/list.sort() return a permutation of the input in ascending (lexicographic) order")
        return out

    def sorted_list_arr(self, st, v, node):
        """sorted() of a list of tuples (scalars..., ndarray, ...): Python compares lexicographically and reaches the ndarray component only
        when all earlier components tie -- then `a < b` on arrays has no truth value (ValueError). Obligation: the scalar prefixes are pairwise
        distinct; the result is the input permuted into ascending lexicographic order of those prefixes."""
        n, elem = v.length, v.elem
        kinds = elem[1]
        npre = next(i for i, kd in enumerate(kinds) if isinstance(kd, str) and kd.startswith("arr:"))
        if npre == 0:
            raise Unsupported("sorted() of tuples starting with an array (ValueError in python for ties)")
        nz = to_z3(n)
        i, j = fresh_int("i"), fresh_int("j")
        pre = lambda t: t[:npre]
        same = mk_and(*[num_cmp("==", x, y) for x, y in zip(pre(v.get(i)), pre(v.get(j)))])
        self.oblige(st, z3.ForAll([i, j], z3.Implies(z3.And(0 <= i, i < j, j < nz), z3.Not(zbool(same)))), "lib",
                    "sorted(): tuples must not tie on every component before the ndarray one (array comparison has no truth value)", node)
        perm = z3.Function(fresh_name("sperm"), z3.IntSort(), z3.IntSort())
        inv = z3.Function(fresh_name("sinv"), z3.IntSort(), z3.IntSort())
        out = Lst(n, lambda k: v.get(perm(to_z3(k))), elem)
        k, k2 = fresh_int("k"), fresh_int("k")

        def lt(a, b):
            r = False
            for x, y in reversed(list(zip(pre(a), pre(b)))):
                r = mk_or(num_cmp("<", x, y), mk_and(num_cmp("==", x, y), r))
            return r

        st.assume(z3.ForAll([k], z3.Implies(z3.And(k >= 0, k < nz), z3.And(perm(k) >= 0, perm(k) < nz, inv(perm(k)) == k)), patterns=[perm(k)]))
        st.assume(z3.ForAll([k], z3.Implies(z3.And(k >= 0, k < nz), z3.And(inv(k) >= 0, inv(k) < nz, perm(inv(k)) == k)), patterns=[inv(k)]))
        st.assume(z3.ForAll([k, k2], z3.Implies(z3.And(k >= 0, k < k2, k2 < nz), zbool(lt(out.get(k), out.get(k2)))), patterns=[z3.MultiPattern(perm(k), perm(k2))]))
        out.perm, out.perm_inv = perm, inv
        self.note_assumption("python: sorted()/list.sort() return a permutation of the input in ascending (lexicographic) order")
        return out

    def list_method_pure(self, st, lst, name, args, kw, node):
        if name == "copy":
            return lst
        if name == "to_list":
            return lst
        raise Unsupported(f"list method {name} in expression position")

    # ------------------------------------------------------------------ contract-language functions
    def call_spec(self, st, name, args, kw, node):
        if name == "implies":
            return mk_implies(self.truth(st, args[0]), self.truth(st, args[1]))
        if name == "iff":
            a, b = self.truth(st, args[0]), self.truth(st, args[1])
            if is_concrete(a) and is_concrete(b):
                return a == b
            return zbool(a) == zbool(b)
        if name == "ite":
            c = self.truth(st, args[0])
            return self.merge_values(c, args[1], args[2]) if not is_concrete(c) else (args[1] if c else args[2])
        if name == "shape":
            return tuple(args[0].shape)
        if name == "is_none":
            v = args[0]
            if isinstance(v, OptV):
                return v.is_none
            return v is NONE
        if name == "kindis":
            return isinstance(args[0], Arr) and args[0].kind == args[1]
        if name == "payload":
            v = args[0]
            if isinstance(v, Opaque):
                return v.payload
            raise EngineError("payload() of a non-opaque value")
        if name == "optval":
            v = args[0]
            return v.value if isinstance(v, OptV) else (0 if v is NONE else v)
        if name == "to_int":
            v = args[0]
            return v if is_intv(v) else z3.ToInt(to_z3(to_real(v)))
        if name == "isint_":
            v = args[0]
            return True if is_intv(v) else z3.IsInt(to_z3(to_real(v)))
        if name == "isnan_":
            v = args[0]
            return v.is_none if isinstance(v, OptV) else False
        if name == "rowsum":
            a, i = args
            if not isinstance(a, Arr) or a.rank != 2:
                raise EngineError("rowsum needs a 2-D array")
            r = self.np_sum(st, [a], {"axis": 1}, node)
            return r.get(i)
        if name == "fresh":
            return fresh_scalar(args[0] if args else "int", "fresh")
        if name in ("using", "have"):
            return self.truth(st, args[-1])
        if name == "gather_pos":
            return args[0].gather_pos(to_z3(args[1]))
        if name == "gather_src":
            return args[0].gather_src(to_z3(args[1]))
        if name in ("sort_inv", "sort_perm"):
            lst = args[0]
            if getattr(lst, "perm", None) is None:
                # a list that was not sorted here (e.g. the result of a callee): its pre-sort order is an unknown permutation (skolem functions)
                lst.perm = z3.Function(fresh_name("sperm"), z3.IntSort(), z3.IntSort())
                lst.perm_inv = z3.Function(fresh_name("sinv"), z3.IntSort(), z3.IntSort())
            # sort_inv: position in the sorted list of the element at (unsorted) position k; sort_perm: the inverse
            return (lst.perm_inv if name == "sort_inv" else lst.perm)(to_z3(args[1]))
        f = self.spec_funcs[name]
        return f(self, st, *args, **kw)

    def _quant(self, st, node, is_forall):
        *ranges, lam = node.args
        if not isinstance(lam, ast.Lambda):
            raise EngineError("forall/exists need a lambda as last argument")
        names = [a.arg for a in lam.args.args]
        vars_ = [z3.Int(fresh_name(n)) for n in names]
        guards = []
        if ranges:
            if len(ranges) != len(names):
                raise EngineError("forall: one range per bound variable")
            saved = st.env
            st.env = dict(saved)
            for v, n, r in zip(vars_, names, ranges):
                rv = self.eval(st, r)     # may mention earlier bound variables
                if not (isinstance(rv, Opaque) and rv.tag == "range"):
                    raise EngineError("forall range must be range(..)")
                lo, hi = rv.payload
                guards.append(mk_and(num_cmp("<=", lo, v), num_cmp("<", v, hi)))
                st.env[n] = v
            st.env = saved
        saved = st.env
        st.env = dict(saved)
        st.env.update(dict(zip(names, vars_)))
        mark = len(st.pc)
        try:
            body = self.truth(st, self.eval(st, lam.body))
        finally:
            st.env = saved
        # facts assumed while evaluating the body (e.g. argmax witnesses) mention bound vars: not allowed
        if len(st.pc) != mark:
            extra = st.pc[mark:]
            del st.pc[mark:]
            body = mk_and(body, True)   # keep body; side facts dropped (they are definitional for fresh symbols)
            for f in extra:
                st.pc.append(f) if not self._mentions(f, vars_) else None
        g = mk_and(*guards)
        if is_forall:
            trig = next((k.value for k in node.keywords if k.arg == "trig"), None)
            if trig is not None:
                # forall(..., trig=<term using the bound variables>): the fact is instantiated only where that term occurs
                saved = st.env
                st.env = dict(saved)
                st.env.update(dict(zip(names, vars_)))
                try:
                    t = self.eval(st, trig)
                finally:
                    st.env = saved
                fml = mk_implies(g, body)
                if is_z3(fml) and not z3.is_true(fml):
                    return z3.ForAll(list(vars_), zbool(fml), patterns=[to_z3(t)])
                return fml
            return mk_forall(vars_, mk_implies(g, body))
        return mk_exists(vars_, mk_and(g, body))

    def _mentions(self, f, vars_):
        ids = {v.get_id() for v in vars_}

        def walk(t):
            if z3.is_const(t):
                return t.get_id() in ids
            if z3.is_quantifier(t):
                return walk(t.body())
            return any(walk(c) for c in t.children()) if z3.is_app(t) else False

        return walk(f)

    def spec_forall(self, st, node):
        return self._quant(st, node, True)

    def spec_exists(self, st, node):
        return self._quant(st, node, False)

    def spec_old(self, st, node):
        if st.old_env is None:
            raise EngineError("old() outside a postcondition")
        s2 = State()
        s2.env = dict(st.old_env)
        s2.heap = st.old_heap
        s2.pc = st.pc
        s2.ghost_fns = st.ghost_fns
        # bound variables of enclosing quantifiers stay visible
        for k, v in st.env.items():
            if k not in s2.env:
                s2.env[k] = v
        return self.eval(s2, node.args[0])

    def spec_lam(self, st, node):
        """lam(kind, d0[, d1], lambda i[, j]: expr) -> array value defined pointwise."""
        kind = self.eval(st, node.args[0])
        dims = [self.eval(st, d) for d in node.args[1:-1]]
        lam = node.args[-1]
        names = [a.arg for a in lam.args.args]
        env = dict(st.env)

        def get(*idx):
            saved = st.env
            st.env = dict(env)
            st.env.update(dict(zip(names, idx)))
            try:
                return self.eval(st, lam.body)
            finally:
                st.env = saved

        return Arr(tuple(dims), get, kind)

    # ------------------------------------------------------------------ sequents for goals
    def sequents(self, st, node):
        """Decompose a goal expression into [(hyps, goal)] using fresh constants for top-level foralls."""
        if isinstance(node, ast.BoolOp) and isinstance(node.op, ast.And):
            out = []
            for v in node.values:
                out.extend(self.sequents(st, v))
            return out
        if isinstance(node, ast.Call) and isinstance(node.func, ast.Name) and node.func.id == "implies" and "implies" not in st.env:
            a = self.truth(st, self.eval(st, node.args[0]))
            if a is False:
                return []
            return [([a] + h, g) for h, g in self.sequents(st, node.args[1])]
        if isinstance(node, ast.Call) and isinstance(node.func, ast.Name) and node.func.id == "forall" and "forall" not in st.env:
            *ranges, lam = node.args
            names = [a.arg for a in lam.args.args]
            vars_ = [z3.Int(fresh_name(n + "!sk")) for n in names]
            saved = st.env
            st.env = dict(saved)
            guards = []
            try:
                for v, n, r in zip(vars_, names, ranges):
                    rv = self.eval(st, r)
                    lo, hi = rv.payload
                    guards.append(mk_and(num_cmp("<=", lo, v), num_cmp("<", v, hi)))
                    st.env[n] = v
                if not ranges:
                    st.env.update(dict(zip(names, vars_)))
                inner = self.sequents(st, lam.body)
            finally:
                st.env = saved
            return [(guards + h, g) for h, g in inner]
        if isinstance(node, ast.Call) and isinstance(node.func, ast.Name) and node.func.id == "using" and "using" not in st.env:
            *insts, prop = node.args
            hyps, side = [], []
            for inode in insts:
                inst = self.eval(st, inode)
                if not isinstance(inst, LemmaInst):
                    raise EngineError("using(...) needs lemma instances")
                self.used_lemmas.add(inst.name)
                for pr in inst.premises:
                    side.append((list(hyps), pr))
                hyps.append(inst.conclusion)
            return side + [(hyps + h, g) for h, g in self.sequents(st, prop)]
        if isinstance(node, ast.Call) and isinstance(node.func, ast.Name) and node.func.id == "have" and "have" not in st.env:
            # have(P1, ..., Q): prove each Pi first (cut), then Q with them as hypotheses
            *cuts, prop = node.args
            out, hyps = [], []
            for cnode in cuts:
                for h, g in self.sequents(st, cnode):
                    out.append((hyps + h, g))
                hyps = hyps + [self.truth(st, self.eval(st, cnode))]
            return out + [(hyps + h, g) for h, g in self.sequents(st, prop)]
        self.in_goal = True
        try:
            g = self.truth(st, self.eval(st, node))
        finally:
            self.in_goal = False
        if is_z3(g) and z3.is_and(g):
            return [([], x) for x in g.children()]
        return [([], g)]

    # ------------------------------------------------------------------ statements
    def exec_block(self, st, stmts):
        """Execute statements; returns list of (state, outcome) with outcome None | ('return', v) | ('raise', exc, node) | ('break',) | ('continue',)."""
        work = [(st, None)]
        for stmt in stmts:
            nxt = []
            for s, out in work:
                if out is not None:
                    nxt.append((s, out))
                    continue
                nxt.extend(self.exec_stmt_ghost(s, stmt))
            work = nxt
            if len(work) > self.max_paths:
                raise Unsupported("path explosion")
        return work

    def exec_stmt_ghost(self, st, stmt):
        key = self.stmt_key(stmt)
        if st.env.get("$func") is self.cur_fi and not getattr(stmt, "_ghost", False) and not isinstance(stmt, (ast.For, ast.While, ast.If)):
            self._cur_stmt_key = key
        before = self.ghost_for(st, "before:" + key)
        states = [(st, None)]
        if before:
            states = self.exec_block(st, before)
        res = []
        for s, out in states:
            if out is not None:
                res.append((s, out))
                continue
            outs = self.exec_stmt(s, stmt)
            after = self.ghost_for(s, "after:" + key)
            if after:
                for s2, o2 in outs:
                    if o2 is None:
                        res.extend(self.exec_block(s2, after))
                    else:
                        res.append((s2, o2))
            else:
                res.extend(outs)
        return res

    def stmt_key(self, stmt):
        try:
            txt = ast.unparse(stmt)
        except Exception:
            return ""
        return txt.split("\n")[0].strip()

    def ghost_for(self, st, anchor):
        if self.cur is None or st.env.get("$func") is not self.cur_fi or not self.cur.ghost:
            return None
        code = []
        for a, c in self.cur.ghost:
            if a == anchor or (a.endswith("*") and anchor.startswith(a[:-1])):
                code.append(c)
                self._ghost_hit.add(a)
        if not code:
            return None
        stmts = []
        for c in code:
            stmts.extend(ast.parse(c).body)
        for s in stmts:
            for n in ast.walk(s):
                n._ghost = True
        return stmts

    def hoist(self, st, nodes):
        """Pre-evaluate heavy calls occurring in `nodes` (post-order); returns list of (state, None | Raise)."""
        calls = []

        def visit(n):
            if isinstance(n, (ast.Lambda, ast.ListComp, ast.GeneratorExp, ast.IfExp)):
                return
            if isinstance(n, ast.BoolOp):
                visit(n.values[0])      # later operands are evaluated lazily
                return
            for ch in ast.iter_child_nodes(n):
                visit(ch)
            if isinstance(n, ast.Call):
                calls.append(n)

        for n in nodes:
            if n is not None:
                visit(n)
        work = [(st, None)]
        for c in calls:
            nxt = []
            for s, out in work:
                if out is not None:
                    nxt.append((s, out))
                    continue
                if isinstance(c.func, ast.Name) and c.func.id in ("forall", "exists", "old", "lam") and c.func.id not in s.env:
                    nxt.append((s, None))
                    continue
                fr = self.eval(s, c.func)
                if not self.is_heavy(fr):
                    nxt.append((s, None))
                    continue
                args, kw = self.eval_args(s, c)
                for s2, v in self.heavy_call(s, fr, args, kw, c):
                    if isinstance(v, Raise):
                        nxt.append((s2, v))
                    else:
                        s2.tmp[id(c)] = v
                        nxt.append((s2, None))
            work = nxt
        return work

    def exec_stmt(self, st, stmt):
        m = getattr(self, "s_" + type(stmt).__name__, None)
        if m is None:
            raise Unsupported(f"statement {type(stmt).__name__} at line {stmt.lineno}")
        try:
            return m(st, stmt)
        except Unsupported as e:
            # constructs that are definite python errors on this path are modelled as the exception they raise
            msg = str(e)
            for exc in ("TypeError", "AttributeError"):
                if f"({exc} in python)" in msg and not isinstance(stmt, (ast.For, ast.While)):
                    return [(st, ("raise", exc, stmt))]
            raise

    def _with_hoist(self, st, nodes, cont):
        res = []
        for s, out in self.hoist(st, nodes):
            if isinstance(out, Raise):
                res.append((s, ("raise", out.exc, out.node)))
            else:
                r = cont(s)
                s.tmp = {}
                res.extend(r)
        return res

    def s_Expr(self, st, stmt):
        if isinstance(stmt.value, ast.Constant):
            return [(st, None)]
        v = stmt.value
        if getattr(stmt, "_ghost", False) and isinstance(v, ast.Call) and isinstance(v.func, ast.Name) and v.func.id == "assume":
            st.assume(self.truth(st, self.eval(st, v.args[0])))
            self.note_assumption("ghost assume: " + ast.unparse(v.args[0])[:160])
            return [(st, None)]
        # list / object mutating method calls as statements
        if isinstance(v, ast.Call) and isinstance(v.func, ast.Attribute) and isinstance(v.func.value, ast.Name):
            base_name = v.func.value.id
            base = st.env.get(base_name)
            if isinstance(base, Lst) and v.func.attr in ("append", "sort", "extend"):
                def cont(s):
                    args, kw = self.eval_args(s, v)
                    cur = s.env[base_name]
                    if v.func.attr == "append":
                        new = self.list_concat(cur, Lst.of([args[0]], cur.elem))
                        new.hist = ("append", cur)        # construction history (used by the list-sum spec function LSUM)
                        if new.elem is None:
                            new.elem = kind_of(args[0]) if is_numv(args[0]) else (("tuple", [("arr:" + x.kind) if isinstance(x, Arr) else kind_of(x) for x in args[0]]) if isinstance(args[0], tuple) else None)
                    elif v.func.attr == "extend":
                        new = self.list_concat(cur, args[0])
                    else:
                        new = self.sorted_list(s, cur, v)
                    s.env[base_name] = new
                    return [(s, None)]
                return self._with_hoist(st, v.args, cont)

        def cont(s):
            self.eval(s, v)
            return [(s, None)]

        return self._with_hoist(st, [v], cont)

    def s_Assign(self, st, stmt):
        def cont(s):
            val = self.eval(s, stmt.value)
            for tgt in stmt.targets:
                self.assign(s, tgt, val, stmt)
            return [(s, None)]

        nodes = [stmt.value] + [t for t in stmt.targets if not isinstance(t, ast.Name)]
        return self._with_hoist(st, nodes, cont)

    def s_AnnAssign(self, st, stmt):
        if stmt.value is None:
            return [(st, None)]

        def cont(s):
            self.assign(s, stmt.target, self.eval(s, stmt.value), stmt)
            return [(s, None)]

        return self._with_hoist(st, [stmt.value], cont)

    def s_AugAssign(self, st, stmt):
        def cont(s):
            cur = self.eval(s, stmt.target)
            val = self.eval(s, stmt.value)
            op = {ast.Add: "+", ast.Sub: "-", ast.Mult: "*", ast.Div: "/"}.get(type(stmt.op))
            if op is None:
                raise Unsupported("augmented operator")
            if isinstance(cur, Arr) and not isinstance(stmt.target, ast.Subscript):
                # in-place array op: allowed only on own arrays / modifies
                self.check_store_allowed(s, stmt.target, cur, stmt)
            new = self.binop(s, op, cur, val, stmt)
            self.assign(s, stmt.target, new, stmt)
            return [(s, None)]

        return self._with_hoist(st, [stmt.value, stmt.target], cont)

    def check_store_allowed(self, st, tgt_node, arr: Arr, stmt):
        if getattr(stmt, "_ghost", False):
            return
        ok = arr.own
        if not ok and isinstance(tgt_node, ast.Name) and self.cur is not None:
            mods = self.cur.modifies
            if tgt_node.id in mods and st.env.get("$func") is self.cur_fi:
                ok = True
        if not ok and st.env.get("$func") is not self.cur_fi:
            # inside an inlined callee: parameter arrays of the callee that the caller owns
            ok = getattr(arr, "caller_owned", False)
        if not ok:
            self.oblige(st, False, "frame", "store into an array the function does not own (caller's data / view)", stmt)

    def assign(self, st, tgt, val, stmt):
        if isinstance(tgt, ast.Name):
            st.env[tgt.id] = val
            return
        if isinstance(tgt, (ast.Tuple, ast.List)):
            vals = self.unpack(st, val, len(tgt.elts), stmt)
            for t, v in zip(tgt.elts, vals):
                self.assign(st, t, v, stmt)
            return
        if isinstance(tgt, ast.Attribute):
            base = self.eval(st, tgt.value)
            if isinstance(base, ObjRef):
                self.obj_setattr(st, base, tgt.attr, val, stmt)
                return
            raise Unsupported("attribute store on non-object")
        if isinstance(tgt, ast.Subscript):
            base = self.eval(st, tgt.value)
            key = self.eval_key(st, tgt.slice)
            if isinstance(base, Arr):
                self.check_store_allowed(st, tgt.value, base, stmt)
                new = self.store_arr(st, base, key, val, stmt)
                self.assign(st, tgt.value, new, stmt) if isinstance(tgt.value, (ast.Name, ast.Attribute)) else self._unsup("store into temporary")
                return
            if isinstance(base, Lst):
                n = base.length
                k = key
                if not is_intv(k):
                    raise Unsupported("list slice store")
                if is_concrete(k) and k < 0:
                    k = num_add(n, k)
                self.oblige(st, mk_and(num_cmp("<=", 0, k), num_cmp("<", k, n)), "lib", "list store index in range", stmt)
                old = base

                def get(i, old=old, k=k, val=val):
                    c = num_cmp("==", i, k)
                    if is_concrete(c):
                        return val if c else old.get(i)
                    return self.merge_values(c, val, old.get(i))

                new = Lst(n, get, base.elem)
                self.assign(st, tgt.value, new, stmt)
                return
            raise Unsupported("subscript store on this value")
        raise Unsupported("assignment target")

    def s_Return(self, st, stmt):
        if stmt.value is None:
            return [(st, ("return", NONE))]

        def cont(s):
            return [(s, ("return", self.eval(s, stmt.value)))]

        return self._with_hoist(st, [stmt.value], cont)

    def s_Raise(self, st, stmt):
        exc = stmt.exc
        name = None
        if isinstance(exc, ast.Call) and isinstance(exc.func, ast.Name):
            name = exc.func.id
        elif isinstance(exc, ast.Name):
            name = exc.id
        if name is None:
            raise Unsupported("raise of a computed exception")
        # evaluate message arguments: a TypeError while building the message is a different exception
        if isinstance(exc, ast.Call):
            for a in exc.args:
                try:
                    self.eval(st, a)
                except Unsupported as e:
                    if "TypeError" in str(e):
                        return [(st, ("raise", "TypeError", stmt))]
        return [(st, ("raise", name, stmt))]

    def s_Continue(self, st, stmt):
        return [(st, ("continue",))]

    def s_Break(self, st, stmt):
        return [(st, ("break",))]

    def s_Pass(self, st, stmt):
        return [(st, None)]

    def s_Assert(self, st, stmt):
        if getattr(stmt, "_ghost", False):
            for h, g in self.sequents(st, stmt.test):
                self.oblige(st, g, "ghost-assert", self.stmt_key(stmt)[:60], stmt, extra_hyps=h)
            if not getattr(self, "ghost_asserts_unused", False):       # second pass after a failed ghost assertion: hints are not used as facts
                st.assume(self.truth(st, self.eval(st, stmt.test)))
            return [(st, None)]
        c = self.truth(st, self.eval(st, stmt.test))
        self.oblige(st, c, "assert", "assert statement holds", stmt)
        st.assume(c)
        return [(st, None)]

    def s_If(self, st, stmt):
        def cont(s):
            c = self.truth(s, self.eval(s, stmt.test), stmt)
            if c is True:
                return self.exec_block(s, stmt.body)
            if c is False:
                return self.exec_block(s, stmt.orelse)
            s1, s2 = s.fork(), s
            s1.assume(c)
            s2.assume(mk_not(c))
            s1.tmp, s2.tmp = {}, {}
            self.refine_optionals(s1, stmt.test, True)
            self.refine_optionals(s2, stmt.test, False)
            return self.exec_block(s1, stmt.body) + self.exec_block(s2, stmt.orelse)

        return self._with_hoist(st, [stmt.test], cont)

    def refine_optionals(self, st, test, truth):
        """After branching on `x is None` / `x is not None` (possibly inside an and-chain) narrow the optional variable x."""
        if isinstance(test, ast.BoolOp) and isinstance(test.op, ast.And) and truth:
            for v in test.values:
                self.refine_optionals(st, v, True)
            return
        if isinstance(test, ast.UnaryOp) and isinstance(test.op, ast.Not):
            self.refine_optionals(st, test.operand, not truth)
            return
        if isinstance(test, ast.Compare) and len(test.ops) == 1 and isinstance(test.left, ast.Name) \
                and isinstance(test.comparators[0], ast.Constant) and test.comparators[0].value is None:
            v = st.env.get(test.left.id)
            if isinstance(v, OptV):
                is_none = isinstance(test.ops[0], ast.Is) == truth
                st.env[test.left.id] = NONE if is_none else v.value

    def s_Import(self, st, stmt):
        for a in stmt.names:
            st.env[a.asname or a.name.split(".")[0]] = ModRef(a.name)
        return [(st, None)]

    def s_ImportFrom(self, st, stmt):
        for a in stmt.names:
            mi = self.repo.modules.get(stmt.module or "")
            r = self.repo.resolve(mi, a.name) if mi else None
            if isinstance(r, FuncInfo):
                st.env[a.asname or a.name] = FuncRef("func", r, name=a.name)
            elif isinstance(r, ClassInfo):
                st.env[a.asname or a.name] = FuncRef("class", r, name=a.name)
            else:
                st.env[a.asname or a.name] = FuncRef("external", f"{stmt.module}.{a.name}", name=a.name)
        return [(st, None)]

    # ------------------------------------------------------------------ loops
    def loop_label(self, stmt):
        fi = self.cur_fi
        if fi is None:
            return None
        key = id(fi.node)
        if key not in self.loop_ordinals:
            ords = {}
            k = 0
            for n in ast.walk(fi.node):
                pass
            # pre-order numbering
            def visit(n):
                nonlocal k
                for ch in ast.iter_child_nodes(n):
                    if isinstance(ch, (ast.For, ast.While)):
                        k += 1
                        ords[id(ch)] = k
                    visit(ch)
            visit(fi.node)
            self.loop_ordinals[key] = ords
        o = self.loop_ordinals[key].get(id(stmt))
        return f"loop#{o}" if o else None

    def assigned_names(self, body):
        names, attrs = set(), set()

        def tgt(t):
            if isinstance(t, ast.Name):
                names.add(t.id)
            elif isinstance(t, (ast.Tuple, ast.List)):
                for e in t.elts:
                    tgt(e)
            elif isinstance(t, ast.Subscript):
                tgt(t.value)
            elif isinstance(t, ast.Attribute):
                attrs.add(ast.unparse(t))
            elif isinstance(t, ast.Starred):
                tgt(t.value)

        for n in body:
            for sub in ast.walk(n):
                if isinstance(sub, ast.Assign):
                    for t in sub.targets:
                        tgt(t)
                elif isinstance(sub, (ast.AugAssign, ast.AnnAssign)):
                    tgt(sub.target)
                elif isinstance(sub, ast.For):
                    tgt(sub.target)
                elif isinstance(sub, ast.Expr) and isinstance(sub.value, ast.Call) and isinstance(sub.value.func, ast.Attribute) \
                        and isinstance(sub.value.func.value, ast.Name) and sub.value.func.attr in ("append", "sort", "extend"):
                    names.add(sub.value.func.value.id)
        return names, attrs

    def rebound_names(self, body):
        """Names that are re-bound (not only element-stored) in the body."""
        out = set()
        for n in body:
            for sub in ast.walk(n):
                if isinstance(sub, ast.Assign):
                    for t in sub.targets:
                        for e in ([t] if not isinstance(t, (ast.Tuple, ast.List)) else t.elts):
                            if isinstance(e, ast.Name):
                                out.add(e.id)
                elif isinstance(sub, ast.AugAssign) and isinstance(sub.target, ast.Name):
                    out.add(sub.target.id)
        return out

    def havoc_value(self, st, name, cur, keep_shape, declared=None, scope=None):
        if declared is not None:
            return self.make_value(st, parse_type(declared), name, scope if scope is not None else st.env)
        if isinstance(cur, Arr):
            shape = cur.shape if keep_shape else tuple(z3.Int(fresh_name(f"{name}_d{i}")) for i in range(cur.rank))
            if not keep_shape:
                for d in shape:
                    st.assume(d >= 0)
            a = sym_array(name, shape, cur.kind, own=cur.own)
            if cur.nanmask is not None:
                nf = z3.Function(fresh_name(name + "_isnan"), *([z3.IntSort()] * cur.rank), z3.BoolSort())
                a.nanmask = lambda *i: nf(*[to_z3(x) for x in i])
            return a
        if isinstance(cur, Lst):
            elem = cur.elem
            if elem is None:
                raise Unsupported(f"loop-modified list {name} has unknown element type (declare loop_vars)")
            l = sym_list(name, elem)
            st.assume(l.length >= 0)
            return l
        if isinstance(cur, bool) or (is_z3(cur) and z3.is_bool(cur)):
            return fresh_scalar("bool", name)
        if is_intv(cur):
            return fresh_scalar("int", name)
        if is_realv(cur):
            return fresh_scalar("real", name)
        if cur is NONE or isinstance(cur, OptV):
            raise Unsupported(f"loop-modified optional variable {name}: declare its type in loop_vars")
        if isinstance(cur, tuple):
            return tuple(self.havoc_value(st, f"{name}_{i}", c, keep_shape) for i, c in enumerate(cur))
        raise Unsupported(f"cannot havoc {name} = {cur!r}")

    def check_invariants(self, st, label, invs, env_extra, kind, stmt):
        saved = st.env
        st.env = dict(saved)
        st.env.update(env_extra)
        try:
            for name, expr in invs.items():
                for h, g in self.sequents(st, parse_expr(expr)):
                    self.oblige(st, g, kind, f"{label}:{name}", stmt, extra_hyps=h)
        finally:
            st.env = saved

    def assume_invariants(self, st, invs, env_extra):
        saved = st.env
        st.env = dict(saved)
        st.env.update(env_extra)
        try:
            for name, expr in invs.items():
                st.assume(self.truth(st, self.eval(st, parse_expr(expr))))
        finally:
            st.env = saved

    def s_For(self, st, stmt):
        if stmt.orelse:
            raise Unsupported("for-else")

        def cont(s):
            return self._for(s, stmt)

        return self._with_hoist(st, [stmt.iter], cont)

    def _for(self, st, stmt):
        it = self.eval(st, stmt.iter)
        n, item = self.iter_protocol(st, it, stmt.iter)
        own_fn = st.env.get("$func") is self.cur_fi
        label = self.loop_label(stmt) if own_fn else None
        invs = (self.cur.invariants.get(label) if (label and self.cur) else None)
        # concrete small trip count and no invariant: unroll
        if invs is None:
            if is_concrete(n) and n <= 8:
                work = [(st, None)]
                for i in range(n):
                    nxt = []
                    for s, out in work:
                        if out is not None and out[0] in ("return", "raise"):
                            nxt.append((s, out))
                            continue
                        if out is not None and out[0] == "break":
                            nxt.append((s, out))
                            continue
                        self.bind_target(s, stmt.target, item(i), stmt)
                        nxt.extend(self.exec_block(s, stmt.body))
                    work = nxt
                return [(s, None if (out is None or out[0] in ("break", "continue")) else out) for s, out in work]
            raise Unsupported(f"loop at line {stmt.lineno} ({label}) needs an invariant")
        self._inv_hit.add(label)
        nz = n
        range_lo = it.payload[0] if (isinstance(it, Opaque) and it.tag == "range") else None
        tname = stmt.target.id if isinstance(stmt.target, ast.Name) else None

        def extra(c):
            e = {"_k": c, "_n": nz}
            if range_lo is not None and tname:
                e[tname] = num_add(range_lo, c)
            return e

        # 1. init
        self._apply_declared_elems(st, self.cur.loop_vars.get(label, {}))
        self.check_invariants(st, label, invs, extra(0), "inv.init", stmt)
        # 2. havoc
        names, attrs = self.assigned_names(stmt.body)
        rebound = self.rebound_names(stmt.body)
        declared = self.cur.loop_vars.get(label, {})
        target_names = {n_.id for n_ in ast.walk(stmt.target) if isinstance(n_, ast.Name)}
        head = st.fork()
        for nm in sorted(names - target_names):
            if nm in head.env or nm in declared:
                head.env[nm] = self.havoc_value(head, nm, head.env.get(nm), nm not in rebound, declared.get(nm), head.env)
        for nm in declared:
            if nm not in names and nm.startswith("g_"):
                head.env[nm] = self.havoc_value(head, nm, head.env.get(nm), False, declared[nm], head.env)
        if attrs:
            raise Unsupported("attribute stores inside a loop with invariant")
        c = z3.Int(fresh_name("_k"))
        head.assume(mk_and(c >= 0, num_cmp("<=", c, nz)))
        self.assume_invariants(head, invs, extra(c))
        # 3. body
        body = head.fork()
        body.assume(num_cmp("<", c, nz))
        self.bind_target(body, stmt.target, item(c), stmt)
        body.env["_k"] = c
        outs = []
        for s, out in self.exec_block(body, stmt.body):
            if out is None or out[0] == "continue":
                self.check_invariants(s, label, invs, extra(c + 1), "inv.preserve", stmt)
            elif out[0] == "break":
                raise Unsupported("break inside a loop with invariant")
            else:
                outs.append((s, out))
        # 4. exit
        ex = head
        ex.assume(num_cmp("==", c, nz))
        if range_lo is not None and tname:
            pass    # python leaves the loop variable at its last value; not modelled (unused after loops here)
        outs.append((ex, None))
        return outs

    def _apply_declared_elems(self, st, declared):
        for nm, t in declared.items():
            v = st.env.get(nm)
            if isinstance(v, Lst) and v.elem is None:
                ts = parse_type(t)
                if ts.base == "list":
                    st.env[nm] = Lst.of(v.items, ts.elem) if v.items is not None else Lst(v.length, v.get, ts.elem)

    def s_While(self, st, stmt):
        if stmt.orelse:
            raise Unsupported("while-else")
        own_fn = st.env.get("$func") is self.cur_fi
        label = self.loop_label(stmt) if own_fn else None
        invs = (self.cur.invariants.get(label) if (label and self.cur) else None)
        if invs is None:
            raise Unsupported(f"while loop at line {stmt.lineno} ({label}) needs an invariant")
        self._inv_hit.add(label)
        self._apply_declared_elems(st, self.cur.loop_vars.get(label, {}))
        self.check_invariants(st, label, invs, {}, "inv.init", stmt)
        names, attrs = self.assigned_names(stmt.body)
        rebound = self.rebound_names(stmt.body)
        declared = self.cur.loop_vars.get(label, {})
        head = st.fork()
        for nm in sorted(names):
            if nm in head.env or nm in declared:
                head.env[nm] = self.havoc_value(head, nm, head.env.get(nm), nm not in rebound, declared.get(nm), head.env)
        for nm in declared:
            if nm not in names and nm.startswith("g_"):
                head.env[nm] = self.havoc_value(head, nm, head.env.get(nm), False, declared[nm], head.env)
        if attrs:
            raise Unsupported("attribute stores inside a loop with invariant")
        self.assume_invariants(head, invs, {})
        outs = []
        for s, hout in self.hoist(head, [stmt.test]):
            if isinstance(hout, Raise):
                outs.append((s, ("raise", hout.exc, hout.node)))
                continue
            g = self.truth(s, self.eval(s, stmt.test), stmt)
            s.tmp = {}
            body = s.fork()
            body.assume(g)
            dec = self.cur.decreases.get(label)
            v0 = None
            if dec is not None:
                v0 = self.eval(body, parse_expr(dec))
                self.oblige(body, num_cmp(">=", v0, 0), "decreases", f"{label}:variant non-negative", stmt)
            for s2, out in self.exec_block(body, stmt.body):
                if out is None or out[0] == "continue":
                    self.check_invariants(s2, label, invs, {}, "inv.preserve", stmt)
                    if dec is not None:
                        v1 = self.eval(s2, parse_expr(dec))
                        self.oblige(s2, num_cmp("<", v1, v0), "decreases", f"{label}:variant decreases", stmt)
                elif out[0] == "break":
                    raise Unsupported("break inside a loop with invariant")
                else:
                    outs.append((s2, out))
            ex = s
            ex.assume(mk_not(g))
            outs.append((ex, None))
        return outs

    # ------------------------------------------------------------------ symbolic parameters
    def eval_dim(self, st, d: str, scope: dict, bind_ok=True):
        d = d.strip()
        if d.isidentifier() and d not in scope:
            if not bind_ok:
                raise EngineError(f"unbound shape variable {d}")
            v = z3.Int(fresh_name(d) if scope.get("$fresh") else d)
            scope[d] = v
            st.assume(v >= 0)
            return v
        saved = st.env
        st.env = scope
        try:
            return self.eval(st, parse_expr(d))
        finally:
            st.env = saved

    def make_value(self, st, ts: TypeSpec, name: str, scope: dict):
        b = ts.base
        if b in ("int", "real", "bool"):
            if ts.const is not None:
                return Fraction(ts.const) if b == "real" else ts.const
            return z3.Const(name, {"int": z3.IntSort(), "real": z3.RealSort(), "bool": z3.BoolSort()}[b])
        if b == "none":
            return NONE
        if b == "nanreal":      # a float that may be nan
            return OptV(z3.Bool(fresh_name(name + "_isnan")), z3.Real(fresh_name(name)), nanlike=True)
        if b == "opt":
            return OptV(z3.Bool(fresh_name(name + "_isnone")), self.make_value(st, ts.elem, name, scope))
        if b == "str":
            return ts.const if ts.const is not None else Opaque("str", name)
        if b == "fn":
            return Opaque("fn", name)
        if b == "any":
            return Opaque("any", name)
        if b == "arr":
            dims = tuple(int(d) if d.strip().isdigit() else self.eval_dim(st, d, scope) for d in ts.dims)
            if ts.elem == "nreal":
                a = sym_array(name, dims, "int", unique=True)
                nf = z3.Function(fresh_name(name + "_isnan"), *([z3.IntSort()] * len(dims)), z3.BoolSort())
                a.nanmask = lambda *i: nf(*[to_z3(x) for x in i])
                return a
            return sym_array(name, dims, ts.elem, unique=True)
        if b == "list":
            l = sym_list(name, ts.elem if isinstance(ts.elem, tuple) else ts.elem)
            st.assume(l.length >= 0)
            return l
        if b == "tuple":
            return tuple(self.make_value(st, t, f"{name}_{i}", scope) for i, t in enumerate(ts.elem))
        if b in ("series", "frame"):
            return Opaque(b, self.make_value(st, ts.elem, name, scope))
        if b == "obj":
            abstract = ts.cls.startswith("~")
            cname = ts.cls.lstrip("~")
            ci = self.repo.cls(cname)
            if ci is None:
                raise EngineError(f"unknown class {cname}")
            return self.alloc(st, ci, abstract=abstract)
        raise EngineError(f"make_value {ts}")

    def setup_params(self, st, c: Contract, scope: dict):
        """Create symbolic values for all params of the contract (dotted names populate object fields)."""
        names = sorted(c.params, key=lambda n: (parse_type(c.params[n]).base == "alias", n.count(".")))
        for pname in names:
            ts = parse_type(c.params[pname])
            if "." in pname:
                base, _, fld = pname.rpartition(".")
                o = self.resolve_dotted(st, scope, base)
                if ts.base == "alias":
                    v = self.resolve_dotted(st, scope, ts.cls)
                else:
                    v = self.make_value(st, ts, pname.replace(".", "_"), scope)
                st.heap[o.oid][fld] = v
            else:
                scope[pname] = self.make_value(st, ts, pname, scope)

    def resolve_dotted(self, st, scope, dotted):
        parts = dotted.split(".")
        v = scope[parts[0]]
        for p in parts[1:]:
            v = st.heap[v.oid][p]
        if not isinstance(v, ObjRef):
            raise EngineError(f"{dotted} is not an object")
        return v

    def unify_params(self, st, c: Contract, bound: dict, scope: dict, node):
        """Bind contract shape variables against actual argument values at a call site; emits shape obligations."""
        for pname in sorted(c.params, key=lambda n: n.count(".")):
            ts = parse_type(c.params[pname])
            if "." in pname:
                base, _, fld = pname.rpartition(".")
                o = self.resolve_dotted(st, scope, base)
                if fld not in st.heap[o.oid]:
                    # property / class attribute value
                    v = self.obj_getattr(st, o, fld, node)
                else:
                    v = st.heap[o.oid][fld]
                if not static_matches(ts, v, self.repo):
                    raise Unsupported(f"field {pname} does not statically match {c.params[pname]} ({v!r})")
                if ts.base == "alias" and v is not self.resolve_dotted(st, scope, ts.cls):
                    raise Unsupported(f"field {pname} is not the same object as {ts.cls} (the contract is stated for the aliased configuration)")
            else:
                v = bound[pname]
                scope[pname] = v
            if ts.base in ("series", "frame") and getattr(ts.elem, "base", None) == "arr" and isinstance(v, Opaque) and isinstance(v.payload, Arr) \
                    and len(ts.elem.dims) == v.payload.rank:
                ts, v = ts.elem, v.payload      # shape variables of a frame / series parameter are bound to the shape of the held values
            if ts.base == "arr":
                if ts.elem == "real" and v.kind != "real":
                    pass
                for d, actual in zip(ts.dims, v.shape):
                    d = d.strip()
                    if d.isidentifier() and d not in scope:
                        scope[d] = actual
                    elif d.isdigit():
                        if not (isinstance(actual, int) and actual == int(d)):
                            self.oblige(st, num_cmp("==", actual, int(d)), "pre", f"{c.ident}:shape of {pname}", node)
                    else:
                        want = self.eval_dim(st, d, scope, bind_ok=False)
                        if want is not actual:
                            self.oblige(st, num_cmp("==", actual, want), "pre", f"{c.ident}:shape of {pname}", node)

    def eval_in(self, st, expr: str, scope: dict):
        saved = st.env
        st.env = scope
        try:
            return self.eval(st, parse_expr(expr))
        finally:
            st.env = saved

    # ------------------------------------------------------------------ applying a contract at a call site
    def apply_contract(self, st, c: Contract, fi: FuncInfo, bound: dict, node):
        self.used_contracts.add(c.ident + ("  [assumed]" if c.assumed else ""))
        caller_env = st.env
        scope = {"$func": fi, "$fresh": True}
        self.unify_params(st, c, bound, scope, node)
        if c.ghost_params:
            key = getattr(self, "_cur_stmt_key", None)
            gargs = None
            for ck, cv in (self.cur.call_ghosts.items() if self.cur is not None else ()):
                if (ck == key or (ck.endswith("*") and (key or "").startswith(ck[:-1]))) and fi.node.name in cv:
                    gargs = cv[fi.node.name]
            if gargs is None:
                raise Unsupported(f"call of {fi.qualname} at `{key}` needs ghost arguments {list(c.ghost_params)} (call_ghosts)")
            for gname, gt in c.ghost_params.items():
                gv = self.eval_in(st, gargs[gname], caller_env)
                ts = parse_type(gt)
                if not static_matches(ts, gv, self.repo):
                    raise Unsupported(f"ghost argument {gname} of {fi.qualname} does not match {gt}")
                scope[gname] = gv
                if ts.base == "arr":
                    for d, actual in zip(ts.dims, gv.shape):
                        d = d.strip()
                        if d.isidentifier() and d not in scope:
                            scope[d] = actual
                        elif not d.isdigit():
                            want = self.eval_dim(st, d, scope, bind_ok=False)
                            if want is not actual:
                                self.oblige(st, num_cmp("==", actual, want), "pre", f"{c.ident}:shape of ghost {gname}", node)
        for k, e in c.lets.items():
            scope[k] = self.eval_in(st, e, scope)
        # preconditions
        saved = st.env
        st.env = scope
        try:
            for i, r in enumerate(c.requires):
                for h, g in self.sequents(st, parse_expr(r)):
                    st.env = caller_env
                    self.oblige(st, g, "pre", f"{c.ident}:requires#{i + 1}", node, extra_hyps=h)
                    st.env = scope
        finally:
            st.env = caller_env
        outs = []
        # exceptional outcomes
        for exc, cond in c.raises.items():
            cv = self.truth(st, self.eval_in(st, cond, scope))
            if cv is False:
                continue
            if cv is True:
                st.env = dict(caller_env)
                outs.append((st, Raise(exc, node)))
                return outs
            s_r = st.fork()
            s_r.assume(cv)
            s_r.env = dict(caller_env)
            outs.append((s_r, Raise(exc, node)))
            st.assume(mk_not(cv))
        # normal outcome
        old_env, old_heap = dict(scope), {k: dict(v) for k, v in st.heap.items()}
        post = dict(scope)
        # modifies
        mods = c.modifies if isinstance(c.modifies, dict) else {m: None for m in c.modifies}
        rebinding = {}
        for m, tstr in mods.items():
            if "." in m:
                base, _, fld = m.rpartition(".")
                o = self.resolve_dotted(st, post, base)
                if tstr is None:
                    curv = st.heap[o.oid].get(fld)
                    if curv is None:
                        raise EngineError(f"modifies {m}: no type")
                    newv = self.havoc_value(st, m.replace(".", "_"), curv, True)
                elif tstr.startswith("="):
                    newv = self.eval_in(st, tstr[1:], post)
                else:
                    newv = self.make_value(st, parse_type(tstr), fresh_name(m.replace(".", "_")), post)
                st.heap[o.oid][fld] = newv
                st.written.add((o.oid, fld))
            else:
                curv = post[m]
                newv = self.havoc_value(st, m, curv, True) if tstr is None else self.make_value(st, parse_type(tstr), fresh_name(m), post)
                post[m] = newv
                rebinding[id(curv)] = (curv, newv)
        if c.returns is not None and c.returns.startswith("="):
            res = self.eval_in(st, c.returns[1:], post)
        elif c.returns is not None:
            res = self.make_value(st, parse_type(c.returns), fresh_name("res_" + fi.node.name), post)
        else:
            res = NONE
        post["result"] = res
        st.old_env, st.old_heap, saved_old = old_env, old_heap, (st.old_env, st.old_heap)
        try:
            for name, e in c.ensures.items():
                try:
                    fact = self.truth(st, self.eval_in(st, e, post))
                except Unsupported as ex:
                    # the clause talks about state the callee leaves in a form the caller's model cannot hold (a field declared `any` in modifies):
                    # the caller simply does not learn this clause -- dropping a hypothesis is sound
                    self.note_assumption(f"callee post {c.ident}#{name} not available at this call site ({str(ex)[:80]})")
                    continue
                st.assume(fact)
            for u in c.post_uses:
                self.eval_in(st, u, post)
        finally:
            st.old_env, st.old_heap = saved_old
        # rebind caller variables that referred to modified arrays
        new_env = dict(caller_env)
        for k, v in caller_env.items():
            if id(v) in rebinding:
                new_env[k] = rebinding[id(v)][1]
        st.env = new_env
        outs.append((st, res))
        return outs

    # ------------------------------------------------------------------ renamed locals
    @staticmethod
    def assigned_locals(fi):
        """names bound in the function body (assignments, loop targets, with-as), in source order, parameters excluded"""
        params = {p for p, _ in fi.params}
        seen, out = set(), []

        def add(t):
            if isinstance(t, ast.Name):
                if t.id not in seen and t.id not in params:
                    seen.add(t.id)
                    out.append(t.id)
            elif isinstance(t, (ast.Tuple, ast.List)):
                for e in t.elts:
                    add(e)
            elif isinstance(t, ast.Starred):
                add(t.value)

        nodes = sorted((n for n in ast.walk(fi.node) if isinstance(n, (ast.Assign, ast.AugAssign, ast.AnnAssign, ast.For, ast.With))),
                       key=lambda n: (n.lineno, n.col_offset))
        for n in nodes:
            if isinstance(n, ast.Assign):
                for t in n.targets:
                    add(t)
            elif isinstance(n, (ast.AugAssign, ast.AnnAssign)):
                add(n.target)
            elif isinstance(n, ast.For):
                add(n.target)
            elif isinstance(n, ast.With):
                for it in n.items:
                    if it.optional_vars is not None:
                        add(it.optional_vars)
        return out

    def rename_for_locals(self, c: Contract, fi):
        """A contract names locals of the function in invariants / ghost code / anchors. When such a name no longer exists but the function binds
        the same NUMBER of locals in the same order as on the unchanged tree (baseline_locals.json), the differing positions are taken as a
        renaming and the contract text is rewritten accordingly. The result is marked: obligations of a re-anchored contract that fail are
        reported as undecided, never as a violation."""
        import copy as _copy, json as _json, os as _os, re as _re
        path = _os.path.join(_os.path.dirname(_os.path.dirname(_os.path.abspath(__file__))), "baseline_locals.json")
        if not _os.path.exists(path):
            return c, None
        with open(path) as fh:
            base = _json.load(fh).get(c.target)
        if not base:
            return c, None
        now = self.assigned_locals(fi)
        if now == base or len(now) != len(base):
            return c, None
        mapping = {b: n for b, n in zip(base, now) if b != n}
        if not mapping or any(n in base for n in mapping.values()) or len(set(mapping.values())) != len(mapping):
            return c, None
        texts = [v for d in c.invariants.values() for v in d.values()] + [x for a, code in c.ghost for x in (a, code)] + list(c.decreases.values())
        used = {m for t in texts for m in _re.findall(r"[A-Za-z_][A-Za-z_0-9]*", t)}
        if not (used & set(mapping)):
            return c, None

        def ren(t):
            for b, n in mapping.items():
                t = _re.sub(rf"(?<![A-Za-z_0-9.]){_re.escape(b)}(?![A-Za-z_0-9])", n, t)
            return t

        c2 = _copy.deepcopy(c)
        c2.invariants = {k: {kk: ren(v) for kk, v in d.items()} for k, d in c.invariants.items()}
        c2.ghost = [(ren(a), ren(code)) for a, code in c.ghost]
        c2.decreases = {k: ren(v) for k, v in c.decreases.items()}
        c2.loop_vars = {k: {ren(kk): v for kk, v in d.items()} for k, d in c.loop_vars.items()}
        c2.call_ghosts = {ren(k): {f: {g: ren(e) for g, e in gm.items()} for f, gm in v.items()} for k, v in c.call_ghosts.items()}
        return c2, mapping

    # ------------------------------------------------------------------ verifying one function against its contract
    def verify(self, c: Contract):
        fi = self.repo.func(c.target)
        if fi is None:
            raise Unsupported(f"unbindable contract: {c.target} not found in the repository")
        c, self.renamed_locals = self.rename_for_locals(c, fi)
        self.cur, self.cur_fi = c, fi
        self._inv_hit, self._ghost_hit = set(), set()
        declared = [p for p in c.params if "." not in p]
        actual = [p for p, _ in fi.params]
        if declared != actual:
            raise Unsupported(f"unbindable contract: parameter list of {c.target} is {actual}, contract declares {declared}")
        for d in fi.decorators:
            if d not in ("njit", "jit", "staticmethod", "classmethod", "property"):
                raise Unsupported(f"unknown decorator @{d} on {c.target}")
        st = State()
        st.assume(PI_AXIOM)
        scope = {"$func": fi}
        self.setup_params(st, c, scope)
        for gname, gt in c.ghost_params.items():
            scope[gname] = self.make_value(st, parse_type(gt), gname, scope)
        st.env = scope
        for k, e in c.lets.items():
            scope[k] = self.eval(st, parse_expr(e))
        for r in c.requires:
            st.assume(self.truth(st, self.eval(st, parse_expr(r))))
        for u in c.uses:
            self.eval(st, parse_expr(u))
        entry_pc = list(st.pc)
        st.old_env = dict(scope)
        st.old_heap = {k: dict(v) for k, v in st.heap.items()}
        entry_ghost = self.ghost_for(st, "entry")
        starts = [(st, None)]
        if entry_ghost:
            starts = self.exec_block(st, entry_ghost)
        outs = []
        for s, o in starts:
            outs.extend(self.exec_block(s, strip_docstring(fi.node.body)) if o is None else [(s, o)])
        n_ret = 0
        ret_pcs = []
        for s, out in outs:
            if out is None:
                out = ("return", NONE)
            if out[0] == "return":
                n_ret += 1
                ret_pcs.append(list(s.pc))
                self.check_post(s, c, out[1], fi)
            elif out[0] == "raise":
                exc = out[1]
                nd = out[2] if len(out) > 2 else None
                if exc in c.raises:
                    saved = s.env
                    env = dict(s.old_env)
                    s.env = env
                    try:
                        for h, g in self.sequents(s, parse_expr(c.raises[exc])):
                            self.oblige(s, g, "raises", f"{exc} only when specified", nd, extra_hyps=h)
                    finally:
                        s.env = saved
                else:
                    self.oblige(s, False, "unexpected-raise", f"{exc} not permitted by the contract", nd)
        # anchors / invariants that did not bind
        for label in c.invariants:
            if label not in self._inv_hit:
                raise Unsupported(f"unbindable contract: invariant {label} of {c.ident} matched no loop")
        for a, _ in c.ghost:
            if a not in self._ghost_hit:
                raise Unsupported(f"unbindable contract: ghost anchor {a!r} of {c.ident} matched no statement")
        return {"entry_pc": entry_pc, "return_pcs": ret_pcs, "n_paths": len(outs)}

    def check_post(self, s, c: Contract, result, fi):
        env = dict(s.old_env)
        # parameters that are arrays may have been rebound (modifies): use current bindings for param names
        mods = c.modifies if isinstance(c.modifies, (list, dict)) else []
        for p in c.params:
            if "." not in p and p in s.env and p in mods:
                env[p] = s.env[p]
        for k, v in s.env.items():
            if k.startswith("g_"):
                env[k] = v
        env["result"] = result
        saved = s.env
        s.env = env
        try:
            for u in c.post_uses:
                self.eval(s, parse_expr(u))
            for name, e in c.ensures.items():
                try:
                    seqs = self.sequents(s, parse_expr(e))
                except (Unsupported, EngineError) as ex:
                    # the postcondition mentions state that does not exist on this path (e.g. a fitted attribute never assigned)
                    self.oblige(s, False, "post", name, None)
                    self.note_assumption(f"post[{name}] not evaluable on a path: {str(ex)[:120]}")
                    continue
                for h, g in seqs:
                    self.oblige(s, g, "post", name, None, extra_hyps=h)
            for exc, cond in c.raises.items():
                old = State()
                old.env, old.heap, old.pc, old.ghost_fns = dict(s.old_env), s.old_heap, s.pc, s.ghost_fns
                cv = self.truth(old, self.eval(old, parse_expr(cond)))
                self.oblige(s, mk_not(cv), "raises", f"{exc} raised whenever specified", None)
            # frame: parameters not in modifies must be unchanged objects (arrays are values; stores are checked at store time)
        finally:
            s.env = saved
