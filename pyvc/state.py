"""Execution state, obligations, quantifier helpers."""
from __future__ import annotations

import copy
from dataclasses import dataclass, field

import z3

from .values import fresh_name, is_z3, mk_and, mk_implies, to_z3, zbool


@dataclass
class Obligation:
    oid: str                 # stable id, e.g. l2_cost_optim#post[value]
    kind: str                # pre | post | raises | inv.init | inv.preserve | decreases | frame | lib | lemma | unexpected-raise
    hyps: list               # z3 Bool terms
    goal: object             # z3 Bool term
    func: str = ""           # contract ident
    target: str = ""         # path::qualname
    line: int = 0
    props: tuple = ()
    note: str = ""
    extra: dict = field(default_factory=dict)


class State:
    def __init__(self):
        self.env = {}
        self.heap = {}       # oid -> dict field -> value
        self.pc = []         # path condition + assumed facts (z3 Bools)
        self.tmp = {}        # id(ast node) -> precomputed value (hoisted calls)
        self.old_env = None  # env at function entry (for old())
        self.old_heap = None
        self.ghost_fns = {}
        self.written = set()   # (oid, field) written during this call (frame / kill-before-use)
        self.read_before_write = set()

    def fork(self):
        s = State.__new__(State)
        s.env = dict(self.env)
        s.heap = {k: dict(v) for k, v in self.heap.items()}
        s.pc = list(self.pc)
        s.tmp = dict(self.tmp)
        s.old_env = self.old_env
        s.old_heap = self.old_heap
        s.ghost_fns = dict(self.ghost_fns)
        s.written = set(self.written)
        s.read_before_write = set(self.read_before_write)
        return s

    def assume(self, f):
        if f is True:
            return
        if f is False:
            self.pc.append(z3.BoolVal(False))
            return
        self.pc.append(zbool(f))


# ----------------------------------------------------------------------------- quantifiers with triggers
def _collect_apps(t, bound_ids, out, depth=0):
    """Collect applications of uninterpreted functions (arity>0) that mention a bound variable."""
    if not z3.is_app(t):
        return set()
    vars_here = set()
    if z3.is_const(t):
        if t.get_id() in bound_ids:
            vars_here.add(t.get_id())
        return vars_here
    for ch in t.children():
        vars_here |= _collect_apps(ch, bound_ids, out, depth + 1)
    if t.decl().kind() == z3.Z3_OP_UNINTERPRETED and t.num_args() > 0 and vars_here:
        out.append((t, frozenset(vars_here)))
    return vars_here


def _has_quant(t):
    if z3.is_quantifier(t):
        return True
    if z3.is_app(t):
        return any(_has_quant(c) for c in t.children())
    return False


def _pattern_ok(t, bound_ids):
    """Reject pattern candidates containing interpreted boolean structure / ite / nested quantifier."""
    if z3.is_quantifier(t):
        return False
    if z3.is_app(t):
        k = t.decl().kind()
        if k in (z3.Z3_OP_ITE, z3.Z3_OP_AND, z3.Z3_OP_OR, z3.Z3_OP_NOT, z3.Z3_OP_EQ, z3.Z3_OP_LE, z3.Z3_OP_GE,
                 z3.Z3_OP_LT, z3.Z3_OP_GT, z3.Z3_OP_IMPLIES, z3.Z3_OP_DISTINCT, z3.Z3_OP_MUL, z3.Z3_OP_DIV,
                 z3.Z3_OP_IDIV, z3.Z3_OP_MOD, z3.Z3_OP_TO_REAL, z3.Z3_OP_TO_INT):
            if k in (z3.Z3_OP_ITE, z3.Z3_OP_AND, z3.Z3_OP_OR, z3.Z3_OP_NOT, z3.Z3_OP_IMPLIES):
                return False        # z3 rejects boolean structure / ite inside patterns outright
            # mul/div of bound variables make poor patterns; allow only if no bound var below
            def mentions(x):
                if z3.is_const(x):
                    return x.get_id() in bound_ids
                return any(mentions(c) for c in x.children()) if z3.is_app(x) else False
            if mentions(t):
                return False
        return all(_pattern_ok(c, bound_ids) for c in t.children())
    return True


NO_TRIGGER = {"CG"}      # value spec functions that would start matching loops when used as triggers (CG(v) -> CG(v+1) -> ...)


def make_patterns(vars_, body, avoid=()):
    avoid = set(avoid) | NO_TRIGGER
    ids = {v.get_id() for v in vars_}
    apps = []
    _collect_apps(body, ids, apps)
    seen, cands = set(), []
    for t, vs in apps:
        key = t.get_id()
        if key in seen:
            continue
        seen.add(key)
        if t.decl().name() in avoid:
            continue
        if not all(_pattern_ok(c, ids) for c in t.children()):
            continue
        cands.append((t, vs))
    full = frozenset(ids)
    pats = []
    # single-term patterns covering all bound variables; prefer smaller terms
    singles = [t for t, vs in cands if vs == full]
    singles.sort(key=lambda t: len(t.sexpr()))
    # drop candidates that strictly contain another candidate of same decl? keep distinct decls first
    by_decl = {}
    for t in singles:
        by_decl.setdefault(t.decl().name(), []).append(t)
    for name, ts in by_decl.items():
        for t in ts[:3]:
            pats.append(t)
    if not pats and len(ids) > 1:
        # multi-patterns: greedily combine terms to cover all vars
        cands.sort(key=lambda c: (-len(c[1]), len(c[0].sexpr())))
        for i, (t, vs) in enumerate(cands[:6]):
            cover, terms = set(vs), [t]
            for t2, vs2 in cands:
                if cover == full:
                    break
                if not vs2 <= cover:
                    terms.append(t2)
                    cover |= vs2
            if cover == full:
                pats.append(z3.MultiPattern(*terms))
            if len(pats) >= 3:
                break
    return pats[:8]


def forall(vars_, body, avoid=()):
    body = zbool(body)
    if not vars_:
        return body
    if z3.is_true(body):
        return z3.BoolVal(True)
    pats = make_patterns(vars_, body, avoid)
    if pats:
        return z3.ForAll(list(vars_), body, patterns=pats)
    return z3.ForAll(list(vars_), body)


def exists(vars_, body):
    body = zbool(body)
    if not vars_:
        return body
    return z3.Exists(list(vars_), body)


def fresh_int(base="i"):
    return z3.Int(fresh_name(base))
