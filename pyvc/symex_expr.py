"""Expression evaluation (program expressions and contract expressions share this evaluator)."""
from __future__ import annotations

import ast
from fractions import Fraction

import z3

from .extract import ClassInfo, FuncInfo
from .npmodel import PI
from .state import exists as mk_exists
from .state import forall as mk_forall
from .state import fresh_int
from .values import (nil, NONE, Slc, Arr, EngineError, FuncRef, Lst, ModRef, ObjRef, Opaque, OptV, Unsupported, cast, fresh_name,
                     is_boolv, is_concrete, is_intv, is_numv, is_realv, is_z3, kind_of, mk_and, mk_implies, mk_ite,
                     mk_not, mk_or, num_abs, num_add, num_cmp, num_max, num_min, num_mul, num_sub, to_real, to_z3,
                     zbool)

_BINOPS = {ast.Add: "+", ast.Sub: "-", ast.Mult: "*", ast.Div: "/", ast.FloorDiv: "//", ast.Mod: "%", ast.Pow: "**",
           ast.BitAnd: "&", ast.BitOr: "|", ast.MatMult: "@"}
_CMPOPS = {ast.Eq: "==", ast.NotEq: "!=", ast.Lt: "<", ast.LtE: "<=", ast.Gt: ">", ast.GtE: ">=", ast.Is: "is",
           ast.IsNot: "is not", ast.In: "in", ast.NotIn: "not in"}

NP_TYPES = {"integer": "integer", "floating": "floating", "unsignedinteger": "unsignedinteger", "signedinteger": "signedinteger"}
NP_DTYPES = {"int64": "int", "float64": "real", "bool_": "bool"}


class ExprEval:
    # ------------------------------------------------------------------ truthiness
    def truth(self, st, v, node=None):
        if isinstance(v, bool):
            return v
        if is_z3(v) and z3.is_bool(v):
            return v
        if v is NONE:
            return False
        if is_numv(v):
            return num_cmp("!=", v, 0)
        if isinstance(v, Lst):
            return num_cmp(">", v.length, 0)
        if isinstance(v, tuple):
            return len(v) > 0
        if isinstance(v, (ObjRef, FuncRef)):
            return True
        if isinstance(v, str):
            return len(v) > 0
        if isinstance(v, OptV):
            return mk_and(mk_not(v.is_none), self.truth(st, v.value, node))
        if isinstance(v, Arr):
            if all(isinstance(d, int) for d in v.shape) and self._numel(v) == 1:
                return self.truth(st, v.get(*[0] * v.rank), node)
            raise Unsupported("truth value of an array (ValueError in numpy unless size 1)")
        raise Unsupported(f"truth value of {v!r}")

    # ------------------------------------------------------------------ main dispatch
    def eval(self, st, node):
        if id(node) in st.tmp:
            return st.tmp[id(node)]
        m = getattr(self, "e_" + type(node).__name__, None)
        if m is None:
            raise Unsupported(f"expression {type(node).__name__} at line {getattr(node, 'lineno', '?')}")
        return m(st, node)

    def e_Constant(self, st, node):
        v = node.value
        if v is None:
            return NONE
        if isinstance(v, bool) or isinstance(v, int):
            return v
        if isinstance(v, float):
            return Fraction(v) if v == v and v not in (float("inf"), float("-inf")) else Opaque("float", v)
        if isinstance(v, str):
            return v
        if v is Ellipsis:
            return Opaque("ellipsis")
        raise Unsupported(f"constant {v!r}")

    def e_Name(self, st, node):
        name = node.id
        if name in st.env:
            return st.env[name]
        return self.global_name(st, name, node)

    def global_name(self, st, name, node):
        if name in self.spec_consts:
            return self.spec_consts[name]
        if name in self.spec_names:
            return FuncRef("spec", name, name=name)
        if name in ("True", "False"):
            return name == "True"
        if name in self.BUILTINS:
            return FuncRef("builtin", name, name=name)
        mi = self.cur_module(st)
        r = self.repo.resolve(mi, name) if mi is not None else None
        if isinstance(r, FuncInfo):
            return FuncRef("func", r, name=name)
        if isinstance(r, ClassInfo):
            return FuncRef("class", r, name=name)
        if isinstance(r, tuple):
            if r[0] == "module":
                return ModRef(r[1])
            if r[0] == "external":
                return FuncRef("external", f"{r[1]}.{r[2]}", name=name)
            if r[0] == "global":
                return self.eval(st, r[1])
        # class lookup by unique name (for contracts)
        ci = self.repo.cls(name)
        if ci is not None:
            return FuncRef("class", ci, name=name)
        raise Unsupported(f"unknown name {name!r} at line {getattr(node, 'lineno', '?')}")

    BUILTINS = {"len", "int", "float", "min", "max", "abs", "any", "all", "isinstance", "callable", "range", "enumerate",
                "zip", "sorted", "sum", "list", "tuple", "bool", "print", "ValueError", "RuntimeError", "TypeError",
                "NotImplementedError", "IndexError", "super", "type", "str", "prange", "round"}

    def e_Tuple(self, st, node):
        return tuple(self.eval(st, e) for e in node.elts)

    def e_List(self, st, node):
        if any(isinstance(e, ast.Starred) for e in node.elts):
            # [a, *xs, b]: concatenation of the literal runs and the unpacked sequences
            out, run = None, []

            def flush(out, run):
                if run or out is None:
                    piece = Lst.of(run)
                    out = piece if out is None else self.list_concat(out, piece)
                return out

            for e in node.elts:
                if isinstance(e, ast.Starred):
                    out = flush(out, run)
                    run = []
                    v = self.eval(st, e.value)
                    if not isinstance(v, Lst):
                        n, item = self.iter_protocol(st, v, e)
                        v = Lst.of([item(i) for i in range(n)]) if is_concrete(n) else Lst(n, item, None)
                    out = self.list_concat(out, v)
                else:
                    run.append(self.eval(st, e))
            if run:
                out = self.list_concat(out, Lst.of(run))
            return out
        return Lst.of([self.eval(st, e) for e in node.elts])

    def e_Dict(self, st, node):
        keys = [self.eval(st, k) if k is not None else None for k in node.keys]
        vals = [self.eval(st, v) for v in node.values]
        return Opaque("dict", dict(zip([k if isinstance(k, str) else repr(k) for k in keys], vals)))

    def e_JoinedStr(self, st, node):
        return Opaque("str", "<f-string>")

    def e_IfExp(self, st, node):
        c = self.truth(st, self.eval(st, node.test), node)
        if c is True:
            return self.eval(st, node.body)
        if c is False:
            return self.eval(st, node.orelse)
        s1 = st.fork(); s1.assume(c)
        s2 = st.fork(); s2.assume(mk_not(c))
        a = self.eval(s1, node.body)
        b = self.eval(s2, node.orelse)
        self.merge_side(st, s1, c)
        self.merge_side(st, s2, mk_not(c))
        return self.merge_values(c, a, b)

    def merge_side(self, st, sub, cond):
        """Bring facts assumed while evaluating under `cond` back to the parent (as implications)."""
        for f in sub.pc[len(st.pc) + 1:]:
            st.pc.append(z3.Implies(zbool(cond), f))
        for k, v in sub.ghost_fns.items():
            st.ghost_fns.setdefault(k, v)

    def merge_values(self, c, a, b):
        if a is b:
            return a
        if a is NONE and b is NONE:
            return NONE
        if a is NONE:
            return OptV(c, b)
        if b is NONE:
            return OptV(mk_not(c), a)
        if is_numv(a) and is_numv(b):
            return mk_ite(c, a, b)
        if isinstance(a, tuple) and isinstance(b, tuple) and len(a) == len(b):
            return tuple(self.merge_values(c, x, y) for x, y in zip(a, b))
        if isinstance(a, Lst) and isinstance(b, Lst):
            ln = mk_ite(c, a.length, b.length)
            return Lst(ln, lambda i: self.merge_values(c, a.get(i), b.get(i)), a.elem or b.elem)
        if isinstance(a, Arr) and isinstance(b, Arr) and a.rank == b.rank:
            shape = tuple(x if x is y else mk_ite(c, x, y) for x, y in zip(a.shape, b.shape))
            kind = a.kind if a.kind == b.kind else "real"
            return Arr(shape, lambda *i: mk_ite(c, cast(a.get(*i), kind), cast(b.get(*i), kind)), kind, own=a.own and b.own)
        if isinstance(a, OptV) or isinstance(b, OptV):
            an = a.is_none if isinstance(a, OptV) else False
            bn = b.is_none if isinstance(b, OptV) else False
            av = a.value if isinstance(a, OptV) else a
            bv = b.value if isinstance(b, OptV) else b
            return OptV(mk_or(mk_and(c, an), mk_and(mk_not(c), bn)), self.merge_values(c, av, bv))
        if isinstance(a, str) and isinstance(b, str) and a == b:
            return a
        if isinstance(a, ObjRef) and isinstance(b, ObjRef) and a.oid == b.oid:
            return a
        raise Unsupported(f"cannot merge values {a!r} / {b!r}")

    def e_BoolOp(self, st, node):
        is_and = isinstance(node.op, ast.And)
        acc = None
        guard = True      # condition under which the next operand is evaluated
        for sub in node.values:
            if guard is False:
                break
            s2 = st
            if guard is not True:
                s2 = st.fork()
                s2.assume(guard)
            v = self.truth(s2, self.eval(s2, sub), sub)
            if s2 is not st:
                self.merge_side(st, s2, guard)
            if acc is None:
                acc = v
            else:
                acc = mk_and(acc, v) if is_and else mk_or(acc, v)
            guard = mk_and(guard, v) if is_and else mk_and(guard, mk_not(v))
        return acc

    def e_UnaryOp(self, st, node):
        v = self.eval(st, node.operand)
        if isinstance(node.op, ast.Not):
            return mk_not(self.truth(st, v, node))
        op = {ast.USub: "-", ast.UAdd: "+", ast.Invert: "~"}[type(node.op)]
        return self.unary(st, op, v, node)

    def e_BinOp(self, st, node):
        a = self.eval(st, node.left)
        b = self.eval(st, node.right)
        op = _BINOPS.get(type(node.op))
        if op is None:
            raise Unsupported(f"operator {type(node.op).__name__}")
        if op == "@":
            return self.matmul(st, a, b, node)
        if isinstance(a, (str, Opaque)) or isinstance(b, (str, Opaque)):
            if op == "+" and isinstance(a, (str, Opaque)) and isinstance(b, (str, Opaque)):
                return Opaque("str", "<concat>")
            raise Unsupported("operator on opaque value")
        return self.binop(st, op, a, b, node)

    def matmul(self, st, a, b, node):
        raise Unsupported("matrix product")

    def e_Compare(self, st, node):
        left = self.eval(st, node.left)
        res = True
        for op, rn in zip(node.ops, node.comparators):
            right = self.eval(st, rn)
            o = _CMPOPS[type(op)]
            if o in ("in", "not in"):
                r = self.contains(st, left, right, node)
                if o == "not in":
                    r = mk_not(r)
            else:
                r = self.compare(st, o, left, right, node)
            if isinstance(r, Arr):
                if len(node.ops) != 1:
                    raise Unsupported("chained comparison on arrays")
                return r
            res = mk_and(res, r)
            left = right
        return res

    def contains(self, st, item, container, node):
        if isinstance(container, Lst) and container.items is not None:
            return mk_or(*[self.compare(st, "==", item, x, node) for x in container.items])
        if isinstance(container, tuple):
            return mk_or(*[self.compare(st, "==", item, x, node) for x in container])
        if isinstance(container, Opaque) and container.tag == "interval":
            lo, hi, closed = container.payload
            l = num_cmp(">=" if closed in ("both", "left") else ">", item, lo)
            h = num_cmp("<=" if closed in ("both", "right") else "<", item, hi)
            self.note_assumption("pandas: `x in pd.Interval(lo, hi, closed)` is the interval membership test")
            return mk_and(l, h)
        raise Unsupported("`in` on this container")

    def e_Subscript(self, st, node):
        base = self.eval(st, node.value)
        key = self.eval_key(st, node.slice)
        return self.subscript(st, base, key, node)

    def eval_key(self, st, sl):
        if isinstance(sl, ast.Slice):
            return Slc(self.eval(st, sl.lower) if sl.lower else None, self.eval(st, sl.upper) if sl.upper else None,
                       self.eval(st, sl.step) if sl.step else None)
        if isinstance(sl, ast.Tuple):
            return tuple(self.eval_key(st, e) for e in sl.elts)
        return self.eval(st, sl)

    def subscript(self, st, base, key, node):
        if isinstance(base, Arr):
            return self.index_arr(st, base, key, node)
        if isinstance(base, tuple):
            if isinstance(key, Slc):
                lo = 0 if nil(key.lo) else key.lo
                hi = len(base) if nil(key.hi) else key.hi
                if is_concrete(lo) and is_concrete(hi):
                    return tuple(base[lo:hi])
                raise Unsupported("symbolic tuple slice")
            if is_concrete(key):
                if not (-len(base) <= key < len(base)):
                    self.oblige(st, False, "lib", "tuple index out of range", node)
                    raise Unsupported("tuple index out of range")
                return base[key]
            raise Unsupported("symbolic tuple index")
        if isinstance(base, Lst):
            return self.index_list(st, base, key, node)
        if isinstance(base, Opaque) and base.tag == "dict":
            base = base.payload
        if isinstance(base, dict) and isinstance(key, str):
            if key not in base:
                raise Unsupported(f"dict key {key!r} missing (KeyError in python)")
            return base[key]
        if isinstance(base, OptV):
            raise Unsupported("subscript on a possibly-None value")
        if isinstance(base, Opaque) and base.tag == "frame" and isinstance(key, str) and key in ("ilocs", "labels") and isinstance(base.payload, (Arr, Lst)) \
                and not (isinstance(base.payload, Lst) and isinstance(base.payload.elem, tuple)):
            # single-column model of the detectors' frames: the payload IS the column `ilocs` (sparse change points) / `labels` (dense output)
            self.note_assumption(f"pandas: frame['{key}'] is the column holding the frame's modelled values")
            return Opaque("series", base.payload)
        if isinstance(base, Opaque) and base.tag == "frame" and isinstance(key, str) and isinstance(base.payload, Lst) and isinstance(base.payload.elem, tuple):
            rows = base.payload         # rows (start, end[, columns]) of an anomaly detector's sparse frame
            kinds = base.payload.elem[1]
            if key == "ilocs":
                self.note_assumption("pandas: frame['ilocs'] of a sparse anomaly frame is the left-closed IntervalIndex column of its (start, end) rows")
                return Opaque("series", Opaque("intervals", rows))
            if key == "icolumns" and len(kinds) == 3:
                self.note_assumption("pandas: frame['icolumns'] holds the affected-column arrays of the rows, in order")
                return Opaque("series", Lst(rows.length, lambda q: rows.get(q)[2], "arr:int"))
        raise Unsupported(f"subscript on {base!r}")

    def index_list(self, st, lst: Lst, key, node):
        n = lst.length
        if isinstance(key, Slc):
            lo, hi, step = key.lo, key.hi, key.step
            if (nil(step) or (is_concrete(step) and step == 1)):
                lo = 0 if nil(lo) else lo
                hi = n if nil(hi) else hi
                if is_concrete(lo) and lo < 0:
                    lo = num_add(n, lo)
                if is_concrete(hi) and hi < 0:
                    hi = num_add(n, hi)
                if lst.items is not None and is_concrete(lo) and is_concrete(hi):
                    return Lst.of(lst.items[lo:hi], lst.elem)
                # python list slices clamp; we require them to be inside (stricter), except the common x[1:] on len>=1
                self.oblige(st, mk_and(num_cmp("<=", 0, lo), num_cmp("<=", lo, hi), num_cmp("<=", hi, n)), "lib",
                            "list slice inside the list", node)
                return Lst(num_sub(hi, lo), lambda i: lst.get(num_add(lo, i)), lst.elem)
            if is_concrete(step) and step == -1 and nil(hi) and is_concrete(lo) and lo < 0:
                # x[-k::-1]: elements from index n-k down to 0
                first = num_add(n, lo)
                ln = num_max(num_add(first, 1), 0)
                return Lst(ln, lambda i: lst.get(num_sub(first, i)), lst.elem)
            raise Unsupported("list slice with this step")
        if not is_intv(key):
            raise Unsupported("list index")
        if is_concrete(key) and key < 0:
            key = num_add(n, key)
        self.oblige(st, mk_and(num_cmp("<=", 0, key), num_cmp("<", key, n)), "lib", "list index in range", node)
        return lst.get(key)

    def e_Attribute(self, st, node):
        base = self.eval(st, node.value)
        return self.getattr(st, base, node.attr, node)

    def getattr(self, st, base, name, node):
        if isinstance(base, ModRef):
            return self.module_attr(st, base, name, node)
        if isinstance(base, Arr):
            if name in ("shape", "ndim", "size", "dtype", "T", "values", "index"):
                return self.arr_attr(st, base, name, node)
            return FuncRef("arrmethod", name, self_obj=base, name=name)
        if isinstance(base, Lst):
            return FuncRef("listmethod", name, self_obj=base, name=name)
        if isinstance(base, ObjRef):
            return self.obj_getattr(st, base, name, node)
        if isinstance(base, FuncRef) and base.kind == "class":
            ci = base.target
            fi = self.repo.find_method(ci, name)
            if fi is not None:
                return FuncRef("func" if fi.is_static else "unbound", fi, name=f"{ci.name}.{name}", self_obj=ci if fi.is_classmethod else None)
            ca = self.repo.find_class_attr(ci, name)
            if ca is not None:
                return self.eval(st, ca[0])
            raise Unsupported(f"class attribute {ci.name}.{name}")
        if isinstance(base, tuple) and name in ("count", "index"):
            raise Unsupported("tuple method")
        if isinstance(base, Opaque) and base.tag in ("series", "frame") and name == "values":
            return base.payload
        if isinstance(base, Opaque) and base.tag in ("series", "frame") and isinstance(base.payload, Arr) and name in ("ndim", "shape", "size"):
            self.note_assumption("pandas: a frame / series has the ndim, shape and size of the values it holds")
            if name == "size":
                out = 1
                for d_ in base.payload.shape:
                    out = num_mul(out, d_)
                return out
            return base.payload.rank if name == "ndim" else tuple(base.payload.shape)
        if isinstance(base, Opaque) and base.tag in ("series", "frame") and isinstance(base.payload, Arr) and name in ("index", "columns") \
                and (name == "index" or (base.tag == "frame" and base.payload.rank == 2)):
            # the labels themselves are arbitrary (a fresh uninterpreted label array): nothing may depend on their values
            self.note_assumption(f"pandas: frame.{name} has one (arbitrary) label per {'row' if name == 'index' else 'column'} of the held values")
            from .values import sym_array
            d_ = base.payload.shape[0 if name == "index" else 1]
            return Opaque("series", sym_array("labels_" + name, (d_,), "int"))
        if isinstance(base, Opaque) and base.tag in ("series", "frame") and isinstance(base.payload, Arr) and name == "isna":
            return FuncRef("lambda0", Opaque("isna", base.payload), name="isna")
        if isinstance(base, Opaque) and base.tag == "isna" and name == "any":
            return FuncRef("hasnan", base.payload, name="isna().any")
        if isinstance(base, Opaque) and base.tag == "isna" and name == "sum":
            return FuncRef("lambda0", Opaque("any", "isna().sum()"), name="isna().sum")
        if isinstance(base, Opaque) and base.tag == "series" and name == "array" and isinstance(base.payload, Opaque) and base.payload.tag == "intervals":
            return base.payload
        if isinstance(base, Opaque) and base.tag == "intervals":
            rows = base.payload
            if name in ("left", "right"):
                comp = 0 if name == "left" else 1
                return Arr((rows.length,), lambda q, comp=comp: rows.get(q)[comp], "int")
            if name == "closed":
                return "left"       # sparse frames are built by _format_sparse_output(closed="left") (assumption recorded with frame['ilocs'])
        if isinstance(base, Opaque) and base.tag == "series" and name in ("to_list", "tolist", "to_numpy"):
            self.note_assumption(f"pandas: Series.{name}() returns the series' values in order")
            return FuncRef("lambda0", base.payload, name=f"Series.{name}")
        if isinstance(base, Opaque) and base.tag == "super":
            obj, ci = base.payload
            mro = self.repo.mro(obj.cls)
            after = False
            for c in mro:
                if after and name in c.methods:
                    return FuncRef("method_exact", c.methods[name], self_obj=obj, name=f"{c.name}.{name}")
                if c.name == ci.name:
                    after = True
            return FuncRef("external", "sktime_base." + name, name="super()." + name)
        if isinstance(base, Opaque):
            return Opaque("attr", (base, name))
        if isinstance(base, OptV):
            raise Unsupported(f"attribute .{name} of a possibly-None value")
        if base is NONE:
            raise Unsupported(f"attribute .{name} of None (AttributeError in python)")
        raise Unsupported(f"attribute .{name} of {base!r}")

    def module_attr(self, st, mod: ModRef, name, node):
        m = mod.name
        if m == "numpy":
            if name == "pi":
                return PI
            if name == "inf":
                return Opaque("float", float("inf"))
            if name == "nan":
                return Opaque("float", float("nan"))
            if name in NP_TYPES:
                return Opaque("nptype", name)
            if name in NP_DTYPES:
                return Opaque("dtype", NP_DTYPES[name])
            if name in ("linalg",):
                return ModRef("numpy.linalg")
            if name == "ndarray":
                return Opaque("nptype", "ndarray")
            return FuncRef("np", name, name="np." + name)
        if m == "numpy.linalg":
            return FuncRef("np", "linalg." + name, name="np.linalg." + name)
        if m == "pandas":
            return FuncRef("external", "pandas." + name, name="pd." + name)
        mi = self.repo.modules.get(m)
        if mi is not None:
            r = self.repo.resolve(mi, name)
            if isinstance(r, FuncInfo):
                return FuncRef("func", r, name=name)
            if isinstance(r, ClassInfo):
                return FuncRef("class", r, name=name)
        return FuncRef("external", f"{m}.{name}", name=f"{m}.{name}")

    # lambda / comprehension -------------------------------------------------------
    def e_Lambda(self, st, node):
        return FuncRef("lambda", (node, dict(st.env)), name="<lambda>")

    def call_lambda(self, st, fr: FuncRef, args):
        node, env = fr.target
        names = [a.arg for a in node.args.args]
        if len(names) != len(args):
            raise EngineError("lambda arity")
        saved = st.env
        st.env = dict(saved)
        st.env.update(env)
        st.env.update(dict(zip(names, args)))
        try:
            return self.eval(st, node.body)
        finally:
            st.env = saved

    def e_ListComp(self, st, node):
        if len(node.generators) != 1 or node.generators[0].ifs:
            raise Unsupported("comprehension with several generators / conditions")
        gen = node.generators[0]
        it = self.eval(st, gen.iter)
        n, item = self.iter_protocol(st, it, gen.iter)
        tgt = gen.target

        def elem_at(i):
            saved = st.env
            st.env = dict(saved)
            try:
                self.bind_target(st, tgt, item(i), node)
                return self.eval(st, node.elt)
            finally:
                st.env = saved

        if is_concrete(n):
            return Lst.of([elem_at(i) for i in range(n)])
        probe = elem_at(fresh_int("cp"))
        elem = kind_of(probe) if is_numv(probe) else (("tuple", [kind_of(x) for x in probe]) if isinstance(probe, tuple) else None)
        return Lst(num_max(n, 0), elem_at, elem)

    e_GeneratorExp = e_ListComp

    def iter_protocol(self, st, it, node):
        """Return (count, item(i)) for an iterable value."""
        if isinstance(it, Opaque) and it.tag == "range":
            lo, hi = it.payload
            return num_max(num_sub(hi, lo), 0), (lambda i: num_add(lo, i))
        if isinstance(it, Opaque) and it.tag == "enumerate":
            n, item = self.iter_protocol(st, it.payload, node)
            return n, (lambda i: (i, item(i)))
        if isinstance(it, Opaque) and it.tag == "zip":
            subs = [self.iter_protocol(st, x, node) for x in it.payload]
            n = subs[0][0]
            for m, _ in subs[1:]:
                if m is not n:
                    n = num_min(n, m)
            return n, (lambda i: tuple(item(i) for _, item in subs))
        if isinstance(it, Opaque) and it.tag in ("series", "index") and isinstance(it.payload, (Arr, Lst)):
            self.note_assumption("pandas: iterating a Series / Index yields its values in order")
            return self.iter_protocol(st, it.payload, node)
        if isinstance(it, Lst):
            return it.length, it.get
        if isinstance(it, tuple):
            return Lst.of(list(it)).length, Lst.of(list(it)).get
        if isinstance(it, Arr):
            if it.rank == 1:
                return it.shape[0], (lambda i: it.get(i))
            return it.shape[0], (lambda i: Arr(it.shape[1:], (lambda *j: it.get(i, *j)), it.kind, view_of=it))
        raise Unsupported(f"iteration over {it!r}")

    def bind_target(self, st, tgt, val, node):
        if isinstance(tgt, ast.Name):
            st.env[tgt.id] = val
        elif isinstance(tgt, (ast.Tuple, ast.List)):
            vals = self.unpack(st, val, len(tgt.elts), node)
            for t, v in zip(tgt.elts, vals):
                self.bind_target(st, t, v, node)
        else:
            raise Unsupported("binding target")

    def unpack(self, st, val, n, node):
        if isinstance(val, tuple):
            if len(val) != n:
                raise Unsupported("unpack arity mismatch (ValueError in python)")
            return list(val)
        if isinstance(val, Lst):
            if val.items is not None and len(val.items) == n:
                return list(val.items)
            self.oblige(st, num_cmp("==", val.length, n), "lib", "unpacking: sequence has the expected length", node)
            return [val.get(i) for i in range(n)]
        if isinstance(val, Arr) and val.rank == 1:
            self.oblige(st, num_cmp("==", val.shape[0], n), "lib", "unpacking: array has the expected length", node)
            return [val.get(i) for i in range(n)]
        if isinstance(val, Arr) and val.rank == 2:
            self.oblige(st, num_cmp("==", val.shape[0], n), "lib", "unpacking: array has the expected length", node)
            return [Arr(val.shape[1:], (lambda *j, i=i: val.get(i, *j)), val.kind, view_of=val) for i in range(n)]
        raise Unsupported(f"unpacking {val!r}")
