#!/bin/sh
# Builds the overlay interpreter /verif/.ovenv (offline): python 3.12 venv that sees
# /venv's site-packages (numpy, pandas, sktime, scipy, skchange -> /repo) plus z3 / cvc5 / jsonschema
# from the offline wheelhouse.  /venv itself is never modified.
set -e
cd "$(dirname "$0")"
PY=/root/.pyenv/versions/3.12.1/bin/python
[ -x "$PY" ] || PY=/venv/bin/python
if [ ! -x .ovenv/bin/python ] || ! .ovenv/bin/python -c "import z3, jsonschema, numpy, pandas, skchange" 2>/dev/null; then
  rm -rf .ovenv
  "$PY" -m venv .ovenv
  SP=$(.ovenv/bin/python -c "import sysconfig; print(sysconfig.get_paths()['purelib'])")
  echo "import site; site.addsitedir('/venv/lib/python3.12/site-packages')" > "$SP/zz_overlay.pth"
  PIP_NO_INDEX=1 .ovenv/bin/python -m pip install -q --no-index --find-links /opt/veriftools/wheels \
      --no-deps z3-solver cvc5 jsonschema jsonschema_specifications referencing rpds_py attrs typing_extensions >/dev/null
fi
.ovenv/bin/python - <<'PY'
import z3, jsonschema, numpy, pandas, sktime, skchange, importlib.util
assert importlib.util.find_spec("numba") is None, "numba present: @njit is no longer the identity"
print("overlay ok: z3", z3.get_version_string(), "numpy", numpy.__version__, "pandas", pandas.__version__,
      "skchange from", skchange.__file__)
PY
